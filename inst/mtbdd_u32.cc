// Instantiation TU for the header-only MTBDD package (DESIGN.md 2.1).
// Contains nothing but includes, explicit uses that force instantiation at
// Data = unsigned, and functor subclasses whose leaf operation / predicate /
// renamer are *extern* functions, so that they stay uninterpreted in the proofs.
#include "mtbdd/ondriks_mtbdd.hh"
#include "mtbdd/apply1func.hh"
#include "mtbdd/apply2func.hh"
#include "mtbdd/apply3func.hh"
#include "mtbdd/void_apply1func.hh"
#include "mtbdd/void_apply2func.hh"

using namespace VATA::MTBDDPkg;
typedef OndriksMTBDD<unsigned> M;

// explicit instantiations: every layer-1 function exists in the IR whether or not some caller still uses it
typedef MTBDDNodePtr<unsigned> NPU;
namespace VATA { namespace MTBDDPkg {
template bool IsLeaf<NPU>(const NPU&);
template bool IsInternal<NPU>(const NPU&);
template bool IsNull<NPU>(NPU);
template const unsigned& GetDataFromLeaf<NPU>(const NPU&);
template const NPU::VarType& GetVarFromInternal<NPU>(NPU&);
template const NPU::VarType& GetVarFromInternal<const NPU>(const NPU&);
template NPU GetLowFromInternal<NPU>(const NPU&);
template NPU GetLowFromInternal<NPU>(NPU&);
template NPU GetHighFromInternal<NPU>(const NPU&);
template NPU GetHighFromInternal<NPU>(NPU&);
template NPU CreateLeaf<unsigned>(const unsigned&);
template NPU CreateInternal<NPU>(NPU, NPU, const NPU::VarType&);
template void IncrementRefCnt<NPU>(NPU);
template const NPU::RefCntType& GetLeafRefCnt<NPU>(const NPU);
template const NPU::RefCntType& GetRefCnt<NPU>(const NPU);
template const NPU::RefCntType& DecrementLeafRefCnt<NPU>(NPU);
template const NPU::RefCntType& DecrementInternalRefCnt<NPU>(NPU);
template void DeleteLeafNode<NPU>(NPU);
template void DeleteInternalNode<NPU>(NPU);
template char classifyCase2<NPU, NPU>(const NPU&, const NPU&);
}}

extern "C" unsigned verif_op1(unsigned);
extern "C" unsigned verif_op2(unsigned, unsigned);
extern "C" unsigned verif_op3(unsigned, unsigned, unsigned);
extern "C" bool     verif_pred(size_t);
extern "C" size_t   verif_rename(size_t);
extern "C" void     verif_visit1(unsigned);
extern "C" void     verif_visit2(unsigned, unsigned);

struct Op1 : public Apply1Functor<Op1, unsigned, unsigned> {
  unsigned ApplyOperation(const unsigned& a) { return verif_op1(a); }
};
struct Op2 : public Apply2Functor<Op2, unsigned, unsigned, unsigned> {
  unsigned ApplyOperation(const unsigned& a, const unsigned& b) { return verif_op2(a, b); }
};
struct Op3 : public Apply3Functor<Op3, unsigned, unsigned, unsigned, unsigned> {
  unsigned ApplyOperation(const unsigned& a, const unsigned& b, const unsigned& c) { return verif_op3(a, b, c); }
};
struct V1 : public VoidApply1Functor<V1, unsigned> {
  void ApplyOperation(const unsigned& a) { verif_visit1(a); }
};
struct V2 : public VoidApply2Functor<V2, unsigned, unsigned> {
  void ApplyOperation(const unsigned& a, const unsigned& b) { verif_visit2(a, b); }
};
struct Pred { bool operator()(size_t v) const { return verif_pred(v); } };
struct Ren  { size_t operator()(size_t v) const { return verif_rename(v); } };

unsigned verif_instantiate(const VATA::SymbolicVarAsgn& a, size_t off)
{
  M m1(a, 3, 0); M m2(a, 4, 1); M m3(m1); M m0(7u); m3 = m2;
  Op1 o1; Op2 o2; Op3 o3; V1 v1; V2 v2;
  M m4 = o2(m1, m2); M m5 = o1(m4); M m6 = o3(m1, m2, m4);
  v1(m4); v2(m4, m5);
  M m7 = m6.ExtendWith(a, off);
  M m8 = m7.GetMtbddForPrefix(a, off);
  M m9 = m8.Project(Pred(), o2);
  M m10 = m9.Rename(Ren());
  bool e = (m9 == m10) || (m9 != m8);
  auto paths = m10.GetPaths();
  return m10.GetValue(a) + m0.GetDefaultValue() + e + paths.size();
}
