// Instantiation TU for inline / template members of ExplicitTreeAutCore (DESIGN.md 2.1): nothing but the header and
// uses that force the compiler to emit the members the contracts are attached to (compiled with -fno-access-control).
#include "explicit_tree_aut_core.hh"
using namespace VATA;
typedef ExplicitTreeAutCore A;
struct VerifIndex { size_t at(const size_t& s) const; size_t operator()(const size_t& s) const; size_t operator[](const size_t& s) const; };
extern "C" size_t verif_index(size_t);
inline size_t VerifIndex::at(const size_t& s) const { return verif_index(s); }
inline size_t VerifIndex::operator()(const size_t& s) const { return verif_index(s); }
inline size_t VerifIndex::operator[](const size_t& s) const { return verif_index(s); }
struct VerifSym { size_t operator()(const size_t& s) const; };
extern "C" size_t verif_sym(size_t);
inline size_t VerifSym::operator()(const size_t& s) const { return verif_sym(s); }
void* verif_sink[64];
void verif_force(A& a, A& b, VerifIndex& ix, const A::StateTuple& t, const size_t& sym, const size_t& st)
{
  int i = 0;
  a.uniqueClusterMap(); a.internalAddTransition(a.tupleLookup(t), sym, st); a.Clear();
  a.AddTransition(t, sym, st); verif_sink[i++] = (void*)(size_t)a.ContainsTransition(t, sym, st); verif_sink[i++] = (void*)(size_t)a.AreTransitionsEmpty();
  a.ReindexStates(b, ix, true);
  a.BuildStateIndex(ix);
  verif_sink[i++] = (void*)(size_t)a.IsLangEmpty();
  { A r1 = a.ReindexStates(ix, true); A r2 = a.CollapseStates(ix); verif_sink[i++] = (void*)&r1; verif_sink[i++] = (void*)&r2; }
  { VerifSym sy; A r3 = a.TranslateSymbols(sy); verif_sink[i++] = (void*)&r3; }
  A c(a); c = b; A d(std::move(c)); d = std::move(a);
  a.SetStateFinal(st); verif_sink[i++] = (void*)(size_t)a.IsStateFinal(st); a.EraseFinalStates();
  a.uniqueClusterMap()->uniqueCluster(st)->uniqueTuplePtrSet(sym);
}
