// Instantiation TU for inline members of ExplicitFiniteAutCore (compiled with -fno-access-control); see inst/expl_tree.cc.
#include "explicit_finite_aut_core.hh"
using namespace VATA;
typedef ExplicitFiniteAutCore F;
void* verif_sink_fa[16];
void verif_force_fa(F& a, const size_t& l, const size_t& s, const size_t& r)
{
  a.uniqueClusterMap(); a.internalAddTransition(l, s, r); a.AddTransition(l, s, r);
  a.uniqueClusterMap()->uniqueCluster(l)->uniqueRStateSet(s);
  a.SetStateFinal(l); a.SetStateStart(l, s); verif_sink_fa[0] = (void*)(size_t)(a.IsStateFinal(l) + a.IsStateStart(r));
}
