#!/usr/bin/env python3
"""native replay for C09: search for an NFA pair on which `vata -r expl_fa incl` (built from /repo's working tree) disagrees with a
subset-construction oracle.  Known seeds first, then a seeded random search over NFAs with <= 4 states over {a,b}.
Replay only: runs after a deductive obligation has failed; its outcome never turns a violation into a pass."""
import sys, json, os, subprocess, random, time, glob
from collections import deque
rin, work, seed = sys.argv[1], sys.argv[2], int(sys.argv[3])
rep = json.load(open(rin))
V = os.path.dirname(os.path.dirname(os.path.abspath(__file__)))
out = {'reproduced': False}

def gen(n, rnd):
    starts = [q for q in range(n) if rnd.random() < 0.4] or [0]
    finals = [q for q in range(n) if rnd.random() < 0.4]
    trans = [(p, s, q) for p in range(n) for s in 'ab' for q in range(n) if rnd.random() < 0.3]
    return starts, finals, trans
def text(a, pre):
    starts, finals, trans = a
    t = "Ops x:0 a:1 b:1\nAutomaton A\nStates\nFinal States %s\nTransitions\n" % ' '.join(pre + str(q) for q in finals)
    for q in starts: t += "x -> %s%d\n" % (pre, q)
    for p, s, q in trans: t += "%s(%s%d) -> %s%d\n" % (s, pre, p, pre, q)
    return t
def parse(txt):
    starts, finals, trans = [], [], []
    for ln in txt.split('\n'):
        ln = ln.strip()
        if ln.startswith('Final States'): finals = ln.split()[2:]
        elif '->' in ln:
            l, r = [x.strip() for x in ln.split('->')]
            if '(' in l: trans.append((l[l.index('(') + 1:-1], l[:l.index('(')], r))
            else: starts.append(r)
    return starts, finals, trans
def oracle(A, B):
    sa, fa, ta = A; sb, fb, tb = B
    syms = sorted(set(x for _, x, _ in ta) | set(x for _, x, _ in tb))
    start = [(p, frozenset(sb)) for p in sa]; seen = set(start); dq = deque(start)
    while dq:
        p, S = dq.popleft()
        if p in fa and not (S & set(fb)): return False
        for s in syms:
            S2 = frozenset(q2 for (q1, x, q2) in tb if x == s and q1 in S)
            for (p1, x, p2) in ta:
                if p1 == p and x == s and (p2, S2) not in seen: seen.add((p2, S2)); dq.append((p2, S2))
    return True
try:
    d = os.path.join(work, 'native')
    subprocess.run([os.path.join(V, 'replay', 'build_lib.sh'), d, 'cli'], stdout=subprocess.PIPE, stderr=subprocess.PIPE, timeout=2400)
    vata = os.path.join(d, '_build', 'cli', 'vata')
    if not os.path.exists(vata): raise RuntimeError('vata CLI did not build')
    desc = (rep.get('description') or '') + (rep.get('harness') or '') + (rep.get('unit') or '')
    opts = ['alg=antichains'] if 'memo' in desc else (['alg=congr,order=depth', 'alg=congr,order=breadth'] if 'dispatch' in desc else ['alg=antichains', 'alg=congr,order=depth', 'alg=congr,order=breadth'])
    def run(o, fa, fb):
        try:
            r = subprocess.run([vata, '-r', 'expl_fa', '-o', o, 'incl', fa, fb], stdout=subprocess.PIPE, stderr=subprocess.PIPE, timeout=10)
        except subprocess.TimeoutExpired:
            return 'HANG'
        s = r.stdout.decode().strip()
        return s.split('\n')[-1] if s else 'ERR'
    fa, fb = os.path.join(d, 'A.txt'), os.path.join(d, 'B.txt')
    tried = 0; t0 = time.time(); found = None
    cases = []
    for a in sorted(glob.glob(os.path.join(V, 'replay', 'c09_cases', '*_A.txt'))):
        cases.append((open(a).read(), open(a[:-6] + '_B.txt').read()))
    rnd = random.Random(seed)
    while found is None and time.time() - t0 < 240 and tried < 4000:
        if cases: ta, tb = cases.pop(0)
        else: ta, tb = text(gen(rnd.randint(2, 4), rnd), 'p'), text(gen(rnd.randint(2, 4), rnd), 'q')
        open(fa, 'w').write(ta); open(fb, 'w').write(tb); tried += 1
        exp = '1' if oracle(parse(ta), parse(tb)) else '0'
        for o in opts:
            got = run(o, fa, fb)
            if got != exp: found = {'smaller': ta, 'bigger': tb, 'options': o, 'expected_by_subset_construction': exp, 'vata_answers': got}; break
    out.update({'pairs_tried': tried, 'algorithms': opts, 'command': 'vata -r expl_fa -o <options> incl smaller bigger'})
    if found: out['reproduced'] = True; out['failing_input'] = found
except Exception as e:
    out['error'] = str(e)
print(json.dumps(out))
