#!/usr/bin/env python3
"""native replay for C10 (finite automata: GetCandidateTree, then Intersection): search for an NFA on which `vata -r expl_fa witness` (library built from /repo's
working tree) returns an automaton whose language is not a subset of the original's, or is empty although the original's is not.
NFAs in libvata's Timbuk encoding: nullary rules `x -> q` make q a start state with start symbol x, unary rules `a(p) -> q` are edges.
Known seed first, then a seeded random search over NFAs with <= 4 states.  Replay only: it never decides a check."""
import sys, json, os, subprocess, random, time, itertools
rin, work, seed = sys.argv[1], sys.argv[2], int(sys.argv[3])
V = os.path.dirname(os.path.dirname(os.path.abspath(__file__)))
out = {'reproduced': False}
def text(n, finals, starts, edges):
    t = "Ops x:0 y:0 a:1 b:1\nAutomaton A\nStates %s\nFinal States %s\nTransitions\n" % (' '.join('q%d' % s for s in range(n)), ' '.join('q%d' % s for s in finals))
    for (sym, q) in starts: t += "%s -> q%d\n" % (sym, q)
    for (sym, p, q) in edges: t += "%s(q%d) -> q%d\n" % (sym, p, q)
    return t
def parse(txt):
    finals = set(); starts = set(); edges = set()
    for ln in txt.split('\n'):
        ln = ln.strip()
        if ln.startswith('Final States'): finals = set(ln.split()[2:])
        elif '->' in ln:
            l, r = [x.strip() for x in ln.split('->')]
            if '(' in l: edges.add((l[:l.index('(')], l[l.index('(') + 1:-1].strip(), r))
            else: starts.add((l, r))
    return finals, starts, edges
def words(finals, starts, edges, maxlen=4):
    """accepted words up to maxlen letters (first letter = start symbol)"""
    acc = set(); frontier = set((sym, q) for sym, q in starts)
    frontier = set(((sym,), q) for sym, q in starts)
    for _ in range(maxlen):
        for w, q in frontier:
            if q in finals: acc.add(w)
        frontier = set((w + (a,), q2) for (w, q) in frontier for (a, p, q2) in edges if p == q)
    return acc
def gen(rnd):
    n = rnd.randint(1, 4); finals = [s for s in range(n) if rnd.random() < 0.4]
    starts = sorted(dict((rnd.randrange(n), rnd.choice('xy')) for _ in range(rnd.randint(1, 2))).items()); starts = [(sym, q) for q, sym in starts]
    # one start symbol per start state: the Timbuk loader / dumper of the finite encoding keeps only one of several (seen by hand, outside the claimed functions)
    edges = sorted(set((rnd.choice('ab'), rnd.randrange(n), rnd.randrange(n)) for _ in range(rnd.randint(0, 5))))
    return n, finals, starts, edges
try:
    d = os.path.join(work, 'native')
    subprocess.run([os.path.join(V, 'replay', 'build_lib.sh'), d, 'cli'], stdout=subprocess.PIPE, stderr=subprocess.PIPE, timeout=2400)
    vata = os.path.join(d, '_build', 'cli', 'vata')
    if not os.path.exists(vata): raise RuntimeError('vata CLI did not build')
    f = os.path.join(d, 'N.txt'); rnd = random.Random(seed); tried = 0; t0 = time.time(); found = None
    cases = [(2, [0], [('x', 0)], [('a', 0, 1)]), (1, [0], [('x', 0)], [])]      # a final start state
    while found is None and time.time() - t0 < 180 and tried < 4000:
        n, fi, st, ed = cases.pop(0) if cases else gen(rnd)
        t = text(n, fi, st, ed); open(f, 'w').write(t); tried += 1
        r = subprocess.run([vata, '-r', 'expl_fa', 'witness', f], stdout=subprocess.PIPE, stderr=subprocess.PIPE, timeout=20)
        F0, S0, E0 = parse(t); F1, S1, E1 = parse(r.stdout.decode())
        L0 = words(F0, S0, E0, 5); L1 = words(F1, S1, E1, 5)
        bad = None
        if not L1 <= L0: bad = 'the witness automaton accepts a word the original does not: %s' % sorted(L1 - L0)[:2]
        elif L0 and not L1: bad = 'the witness automaton is empty although the original accepts %s' % (sorted(L0, key=len)[0],)
        if bad: found = {'automaton': t, 'command': 'vata -r expl_fa witness <file>', 'output': r.stdout.decode()[-600:], 'what': bad}
    # Intersection: L(isect(A, B)) == L(A) & L(B) on words of up to 5 letters
    f2 = os.path.join(d, 'M.txt'); pairs = 0
    icases = [((2, [1], [('x', 0)], [('a', 0, 1)]), (2, [1], [('y', 0)], [('a', 0, 1)]))]
    while found is None and time.time() - t0 < 330 and pairs < 3000:
        A, B = icases.pop(0) if icases else (gen(rnd), gen(rnd))
        ta, tb = text(*A), text(*B).replace('Automaton A', 'Automaton B'); open(f, 'w').write(ta); open(f2, 'w').write(tb); pairs += 1
        r = subprocess.run([vata, '-r', 'expl_fa', 'isect', f, f2], stdout=subprocess.PIPE, stderr=subprocess.PIPE, timeout=20)
        LA = words(*parse(ta), maxlen=5); LB = words(*parse(tb), maxlen=5); LI = words(*parse(r.stdout.decode()), maxlen=5)
        if LI != (LA & LB):
            found = {'automaton': ta + '\n--- second operand ---\n' + tb, 'command': 'vata -r expl_fa isect <file1> <file2>', 'output': r.stdout.decode()[-600:],
                     'what': 'the intersection automaton accepts %s, the operands have %s in common' % (sorted(LI, key=len)[:3], sorted(LA & LB, key=len)[:3])}
    out.update({'automata_tried': tried, 'pairs_tried': pairs})
    if found: out['reproduced'] = True; out['failing_input'] = found
except Exception as e:
    out['error'] = str(e)
print(json.dumps(out))
