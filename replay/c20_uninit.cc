// Native replay for the C20 definite-initialisation obligation: intersect two one-rule automata in both BDD encodings.
// Run under valgrind --track-origins=yes: an uninitialised product-state counter shows as "uninitialised value" at the isect file.
#include <vata/bdd_bu_tree_aut.hh>
#include <vata/bdd_td_tree_aut.hh>
#include <vata/parsing/timbuk_parser.hh>
#include <vata/serialization/timbuk_serializer.hh>
#include <iostream>
using namespace VATA;
static const char* A = "Ops a:0 f:1\nAutomaton A\nStates q0 q1\nFinal States q1\nTransitions\na -> q0\nf(q0) -> q1\n";
static const char* B = "Ops a:0 f:1\nAutomaton B\nStates p0 p1\nFinal States p1\nTransitions\na -> p0\nf(p0) -> p1\n";
template <class Aut> static size_t run() {
  Parsing::TimbukParser parser; Serialization::TimbukSerializer ser;
  Aut a, b; a.LoadFromString(parser, A); b.LoadFromString(parser, B);
  Aut c = Aut::Intersection(a, b);
  std::string s = c.DumpToString(ser);
  size_t h = 0; for (char ch : s) h = h * 31 + (unsigned char)ch;   // forces every state number to be read
  if (h == 42) std::cout << "";                                    // branch on the value
  return s.size();
}
int main() { size_t n = run<BDDBottomUpTreeAut>() + run<BDDTopDownTreeAut>(); std::cout << n << "\n"; return 0; }
