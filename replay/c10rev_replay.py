#!/usr/bin/env python3
"""native replay for C10 / fa_reverse (WF-START): builds the library from /repo's working tree, reverses the NFA {x -> p; a(p) -> q; b(q) -> r; final r}
through the public API (ExplicitFiniteAut::Reverse) and dumps the result (DumpToString) in a child process.  Reproduced if the child dies on a
signal (GetStartSymbols dereferences end() for a start state without an entry) or the dump is not the mirror automaton.  Replay only."""
import sys, json, os, subprocess
rin, work, seed = sys.argv[1], sys.argv[2], int(sys.argv[3])
V = os.path.dirname(os.path.dirname(os.path.abspath(__file__)))
REPO = os.environ.get('VERIF_REPO', '/repo')
out = {'reproduced': False}
SRC = r'''
#include <vata/explicit_finite_aut.hh>
#include <vata/parsing/timbuk_parser.hh>
#include <vata/serialization/timbuk_serializer.hh>
#include <iostream>
using namespace VATA;
int main() {
  Parsing::TimbukParser parser; Serialization::TimbukSerializer ser; ExplicitFiniteAut a;
  a.LoadFromString(parser, "Ops x:0 a:1 b:1\nAutomaton A\nStates p q r\nFinal States r\nTransitions\nx -> p\na(p) -> q\nb(q) -> r\n");
  ExplicitFiniteAut r = a.Reverse();
  std::cout << r.DumpToString(ser) << std::endl; return 0; }
'''
try:
    d = os.path.join(work, 'native_c10rev'); os.makedirs(d, exist_ok=True)
    lib = subprocess.run([os.path.join(V, 'replay', 'build_lib.sh'), d], stdout=subprocess.PIPE, stderr=subprocess.PIPE, timeout=1500).stdout.decode().strip().split('\n')[-1]
    open(os.path.join(d, 't.cc'), 'w').write(SRC)
    c = subprocess.run(['g++', '-std=c++11', '-I%s/include' % REPO, '-I%s/src' % REPO, os.path.join(d, 't.cc'), lib, '-o', os.path.join(d, 't')], stdout=subprocess.PIPE, stderr=subprocess.PIPE, timeout=600)
    if c.returncode != 0: out['error'] = 'demo does not compile: ' + c.stderr.decode()[-800:]
    else:
        p = subprocess.run([os.path.join(d, 't')], stdout=subprocess.PIPE, stderr=subprocess.PIPE, timeout=60)
        txt = p.stdout.decode()
        edges = sorted(l.strip() for l in txt.split('\n') if '->' in l)
        ok = p.returncode == 0 and len(edges) == 3 and sum(1 for e in edges if '(' not in e) == 1
        out['input'] = 'NFA {x -> p; a(p) -> q; b(q) -> r; final r}: ExplicitFiniteAut::Reverse() then DumpToString()'
        out['observed'] = 'exit status %d; output %r' % (p.returncode, txt[-400:])
        out['expected'] = 'an automaton with one start state (r), edges b(r) -> q, a(q) -> p and final state p'
        out['reproduced'] = not ok
except Exception as e:
    out['error'] = str(e)
print(json.dumps(out))
