#!/usr/bin/env python3
"""native replay for C15 (witness automaton): `vata -r expl witness` must return a sub-automaton of the input (rules and final states) that accepts a tree whenever the input does.
Derived from the C03 driver: : search for a tree automaton on which `vata -r expl -p load` (RemoveUnreachableStates of the library
built from /repo's working tree) leaves a rule whose parent is not reachable top-down from a final state, drops a rule of a reachable
state, or changes the final states.  Known seed first, then a seeded random search over automata with <= 4 states.  Replay only."""
import sys, json, os, subprocess, random, time, re
rin, work, seed = sys.argv[1], sys.argv[2], int(sys.argv[3])
V = os.path.dirname(os.path.dirname(os.path.abspath(__file__)))
out = {'reproduced': False}
SYMS = [('a', 0), ('b', 0), ('f', 1), ('g', 2)]
def text(states, finals, rules):
    t = "Ops a:0 b:0 f:1 g:2\nAutomaton A\nStates %s\nFinal States %s\nTransitions\n" % (' '.join('q%d' % s for s in states), ' '.join('q%d' % s for s in finals))
    for (sym, ch, p) in rules: t += ("%s(%s) -> q%d\n" % (sym, ','.join('q%d' % c for c in ch), p)) if ch else ("%s -> q%d\n" % (sym, p))
    return t
def gen(rnd):
    n = rnd.randint(2, 4); states = list(range(n)); finals = [s for s in states if rnd.random() < 0.4] or [0]
    rules = []
    for _ in range(rnd.randint(1, 5)):
        sym, ar = rnd.choice(SYMS); rules.append((sym, tuple(rnd.randrange(n) for _ in range(ar)), rnd.randrange(n)))
    return states, finals, sorted(set(rules))
def reach(finals, rules):
    r = set(finals); ch = True
    while ch:
        ch = False
        for (sym, c, p) in rules:
            if p in r:
                for x in c:
                    if x not in r: r.add(x); ch = True
    return r
def parse(txt):
    rules = []; finals = []
    for ln in txt.split('\n'):
        ln = ln.strip()
        if ln.startswith('Final States'): finals = [int(x[1:]) for x in ln.split()[2:]]
        elif '->' in ln:
            l, r = [x.strip() for x in ln.split('->')]
            if '(' in l: sym = l[:l.index('(')]; ch = tuple(int(x.strip()[1:]) for x in l[l.index('(') + 1:-1].split(',') if x.strip())
            else: sym = l; ch = ()
            rules.append((sym, ch, int(r[1:])))
    return finals, sorted(set(rules))
try:
    d = os.path.join(work, 'native')
    subprocess.run([os.path.join(V, 'replay', 'build_lib.sh'), d, 'cli'], stdout=subprocess.PIPE, stderr=subprocess.PIPE, timeout=2400)
    vata = os.path.join(d, '_build', 'cli', 'vata')
    if not os.path.exists(vata): raise RuntimeError('vata CLI did not build')
    f = os.path.join(d, 'T.txt'); rnd = random.Random(seed); tried = 0; t0 = time.time(); found = None
    def nonempty(fi, ru):
        prod = set(); ch = True
        while ch:
            ch = False
            for (sym, c, p) in ru:
                if p not in prod and all(x in prod for x in c): prod.add(p); ch = True
        return any(q in prod for q in fi)
    cases = [([0, 1], [1], [('a', (), 0), ('f', (0,), 1)]), ([0], [0], [('a', (), 0)])]
    while found is None and time.time() - t0 < 180 and tried < 3000:
        st, fi, ru = cases.pop(0) if cases else gen(rnd)
        t = text(st, fi, ru); open(f, 'w').write(t); tried += 1
        r = subprocess.run([vata, '-r', 'expl', 'witness', f], stdout=subprocess.PIPE, stderr=subprocess.PIPE, timeout=20)
        fo, ro = parse(r.stdout.decode())
        bad = None
        if not set(ro) <= set(ru): bad = 'the witness automaton has a rule the input does not have: %s' % sorted(set(ro) - set(ru))[:2]
        elif not set(fo) <= set(fi): bad = 'the witness automaton has a final state the input does not have: %s' % sorted(set(fo) - set(fi))[:2]
        elif nonempty(fi, ru) and not nonempty(fo, ro): bad = 'the input accepts a tree, the witness automaton accepts none'
        if bad: found = {'automaton': t, 'command': 'vata -r expl witness <file>', 'output': r.stdout.decode()[-600:], 'what': bad}
    out.update({'automata_tried': tried})
    if found: out['reproduced'] = True; out['failing_input'] = found
except Exception as e:
    out['error'] = str(e)
print(json.dumps(out))
