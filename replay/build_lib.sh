#!/bin/bash
# build_lib.sh <scratch-dir> [cli]: build of /repo's working tree (hooks on) into <scratch-dir>/_build ; prints the path of libvata.a
# (with "cli" also builds the command-line tool <scratch-dir>/_build/cli/vata)
set -e
REPO=${VERIF_REPO:-/repo}; D=$1
mkdir -p $D
if [ ! -f $D/_build/build.ninja ]; then
  rsync -a --exclude _build --exclude .git $REPO/ $D/src_copy/
  cmake -G Ninja -S $D/src_copy -B $D/_build -DCMAKE_BUILD_TYPE=RelWithDebInfo -DCMAKE_CXX_FLAGS=-DLIBVATA_VERIF >/dev/null 2>&1
fi
if [ ! -f $D/_build/src/libvata.a ]; then cmake --build $D/_build -j${VERIF_JOBS:-14} --target libvata >/dev/null 2>&1; fi
if [ "$2" = "cli" ] && [ ! -x $D/_build/cli/vata ]; then cmake --build $D/_build -j${VERIF_JOBS:-14} --target vata >/dev/null 2>&1; fi
echo $D/_build/src/libvata.a
