#!/usr/bin/env python3
"""native replay for C04 (upward simulation of explicit tree automata): search for an automaton without useless states on which
`vata -r expl sim -o dir=up` (library built from /repo's working tree) differs from the greatest upward simulation computed directly from the
definition in the property (identical siblings, related parents, final implies final).  Seeded random search over automata with <= 7 states in
which several rules share their left-hand side.  Replay only: it never decides a check."""
import sys, json, os, subprocess, random, time, re
rin, work, seed = sys.argv[1], sys.argv[2], int(sys.argv[3])
V = os.path.dirname(os.path.dirname(os.path.abspath(__file__)))
out = {'reproduced': False}
SYMS = [('a', 0), ('b', 0), ('f', 2), ('g', 1)]
def text(n, finals, rules):
    t = "Ops a:0 b:0 f:2 g:1\nAutomaton A\nStates %s\nFinal States %s\nTransitions\n" % (' '.join('q%d' % s for s in range(n)), ' '.join('q%d' % s for s in finals))
    for (sym, ch, p) in rules: t += ("%s(%s) -> q%d\n" % (sym, ','.join('q%d' % c for c in ch), p)) if ch else ("%s -> q%d\n" % (sym, p))
    return t
def useful(n, finals, rules):
    prod = set(); ch = True
    while ch:
        ch = False
        for (s, c, p) in rules:
            if p not in prod and all(x in prod for x in c): prod.add(p); ch = True
    rules = [r for r in rules if r[2] in prod and all(x in prod for x in r[1])]
    reach = set(f for f in finals if f in prod); ch = True
    while ch:
        ch = False
        for (s, c, p) in rules:
            if p in reach:
                for x in c:
                    if x not in reach: reach.add(x); ch = True
    rules = [r for r in rules if r[2] in reach]
    return sorted(set(x for r in rules for x in (r[2],) + r[1]) | reach), [f for f in finals if f in reach], rules
def upsim(states, finals, rules):
    R = set((q, r) for q in states for r in states if (q not in finals) or (r in finals)); ch = True
    while ch:
        ch = False
        for (q, r) in list(R):
            ok = True
            for (s, c, p) in rules:
                for i, x in enumerate(c):
                    if x != q: continue
                    if not any(s2 == s and len(c2) == len(c) and c2[i] == r and all(c2[j] == c[j] for j in range(len(c)) if j != i) and (p, p2) in R for (s2, c2, p2) in rules):
                        ok = False; break
                if not ok: break
            if not ok: R.discard((q, r)); ch = True
    return R
def gen(rnd):
    n = rnd.randint(3, 7); finals = [s for s in range(n) if rnd.random() < 0.4] or [0]; rules = set()
    for _ in range(rnd.randint(2, 4)):
        sym, ar = rnd.choice(SYMS[2:]); ch = tuple(rnd.randrange(n) for _ in range(ar))
        for p in rnd.sample(range(n), rnd.randint(1, min(4, n))): rules.add((sym, ch, p))
    for q in range(n):
        if rnd.random() < 0.7: rules.add((rnd.choice('ab'), (), q))
    return n, finals, sorted(rules)
try:
    d = os.path.join(work, 'native')
    subprocess.run([os.path.join(V, 'replay', 'build_lib.sh'), d, 'cli'], stdout=subprocess.PIPE, stderr=subprocess.PIPE, timeout=2400)
    vata = os.path.join(d, '_build', 'cli', 'vata')
    if not os.path.exists(vata): raise RuntimeError('vata CLI did not build')
    f = os.path.join(d, 'U.txt'); rnd = random.Random(seed); tried = 0; t0 = time.time(); found = None
    while found is None and time.time() - t0 < 240 and tried < 4000:
        n, fi, ru = gen(rnd); st, fi, ru = useful(n, fi, ru)
        if not ru or not fi: continue
        t = text(n, fi, ru); open(f, 'w').write(t); tried += 1
        r = subprocess.run([vata, '-r', 'expl', 'sim', '-o', 'dir=up', f], stdout=subprocess.PIPE, stderr=subprocess.PIPE, timeout=20)
        o = r.stdout.decode().split('\n')
        if len(o) < 2: continue
        idx = dict((int(m.group(1)), int(m.group(2))) for m in re.finditer(r'(\d+): q(\d+)', o[0]))
        got = set((idx[int(a)], idx[int(b)]) for a, b in re.findall(r'\((\d+), (\d+)\)', o[1]) if int(a) in idx and int(b) in idx)
        exp = set((a, b) for (a, b) in upsim(st, fi, ru) if a in idx.values() and b in idx.values())
        if got != exp:
            found = {'automaton': t, 'command': 'vata -r expl sim -o dir=up <file>', 'output': '\n'.join(o[:2])[-800:],
                     'what': 'upward simulation: pairs (q, r) reported but not in the greatest simulation: %s; missing: %s' % (sorted('q%d<=q%d' % p for p in got - exp)[:5], sorted('q%d<=q%d' % p for p in exp - got)[:5])}
    out.update({'automata_tried': tried})
    if found: out['reproduced'] = True; out['failing_input'] = found
except Exception as e:
    out['error'] = str(e)
print(json.dumps(out))
