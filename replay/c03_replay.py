#!/usr/bin/env python3
"""native replay for C03 (trimming): search for a tree automaton on which `vata -r expl -p load` (RemoveUnreachableStates of the library
built from /repo's working tree) leaves a rule whose parent is not reachable top-down from a final state, drops a rule of a reachable
state, or changes the final states.  Known seed first, then a seeded random search over automata with <= 4 states.  Replay only."""
import sys, json, os, subprocess, random, time, re
rin, work, seed = sys.argv[1], sys.argv[2], int(sys.argv[3])
V = os.path.dirname(os.path.dirname(os.path.abspath(__file__)))
out = {'reproduced': False}
SYMS = [('a', 0), ('b', 0), ('f', 1), ('g', 2)]
def text(states, finals, rules):
    t = "Ops a:0 b:0 f:1 g:2\nAutomaton A\nStates %s\nFinal States %s\nTransitions\n" % (' '.join('q%d' % s for s in states), ' '.join('q%d' % s for s in finals))
    for (sym, ch, p) in rules: t += ("%s(%s) -> q%d\n" % (sym, ','.join('q%d' % c for c in ch), p)) if ch else ("%s -> q%d\n" % (sym, p))
    return t
def gen(rnd):
    n = rnd.randint(2, 4); states = list(range(n)); finals = [s for s in states if rnd.random() < 0.4] or [0]
    rules = []
    for _ in range(rnd.randint(1, 5)):
        sym, ar = rnd.choice(SYMS); rules.append((sym, tuple(rnd.randrange(n) for _ in range(ar)), rnd.randrange(n)))
    return states, finals, sorted(set(rules))
def reach(finals, rules):
    r = set(finals); ch = True
    while ch:
        ch = False
        for (sym, c, p) in rules:
            if p in r:
                for x in c:
                    if x not in r: r.add(x); ch = True
    return r
def parse(txt):
    rules = []; finals = []
    for ln in txt.split('\n'):
        ln = ln.strip()
        if ln.startswith('Final States'): finals = [int(x[1:]) for x in ln.split()[2:]]
        elif '->' in ln:
            l, r = [x.strip() for x in ln.split('->')]
            if '(' in l: sym = l[:l.index('(')]; ch = tuple(int(x.strip()[1:]) for x in l[l.index('(') + 1:-1].split(',') if x.strip())
            else: sym = l; ch = ()
            rules.append((sym, ch, int(r[1:])))
    return finals, sorted(set(rules))
try:
    d = os.path.join(work, 'native')
    subprocess.run([os.path.join(V, 'replay', 'build_lib.sh'), d, 'cli'], stdout=subprocess.PIPE, stderr=subprocess.PIPE, timeout=2400)
    vata = os.path.join(d, '_build', 'cli', 'vata')
    if not os.path.exists(vata): raise RuntimeError('vata CLI did not build')
    f = os.path.join(d, 'T.txt'); rnd = random.Random(seed); tried = 0; t0 = time.time(); found = None
    cases = [([0, 1, 2], [0], [('f', (1,), 0), ('b', (), 2)])]      # a reachable state without rules, an unreachable one with a rule
    while found is None and time.time() - t0 < 180 and tried < 3000:
        st, fi, ru = cases.pop(0) if cases else gen(rnd)
        t = text(st, fi, ru); open(f, 'w').write(t); tried += 1
        r = subprocess.run([vata, '-r', 'expl', '-p', 'load', f], stdout=subprocess.PIPE, stderr=subprocess.PIPE, timeout=20)
        fo, ro = parse(r.stdout.decode())
        R = reach(fi, ru); exp = sorted(set(x for x in ru if x[2] in R))
        bad = None
        if any(x[2] not in R for x in ro): bad = 'the result keeps a rule whose parent is unreachable: %s' % [x for x in ro if x[2] not in R][:2]
        elif ro != exp: bad = 'the result does not have exactly the rules of the reachable states'
        elif sorted(fo) != sorted(set(fi)): bad = 'the final states changed'
        if bad: found = {'automaton': t, 'command': 'vata -r expl -p load <file>', 'output': r.stdout.decode()[-600:], 'what': bad}
        if not bad:
            # RemoveUselessStates (-s): exactly the rules whose states are all productive and whose parent is reachable through such rules
            r2 = subprocess.run([vata, '-r', 'expl', '-s', 'load', f], stdout=subprocess.PIPE, stderr=subprocess.PIPE, timeout=20)
            fo2, ro2 = parse(r2.stdout.decode())
            prod = set(); ch = True
            while ch:
                ch = False
                for (sym, c, p) in ru:
                    if p not in prod and all(x in prod for x in c): prod.add(p); ch = True
            pr = [x for x in ru if x[2] in prod and all(y in prod for y in x[1])]
            R2 = reach([q for q in fi if q in prod], pr); exp2 = sorted(set(x for x in pr if x[2] in R2))
            if ro2 != exp2: bad = 'useless-state removal: the result %s is not exactly the useful rules %s' % (ro2[:4], exp2[:4])
            elif sorted(fo2) != sorted(set(q for q in fi if q in prod)) and sorted(fo2) != sorted(set(q for q in fi if q in prod and q in R2)): bad = 'useless-state removal: final states %s' % fo2
            if bad: found = {'automaton': t, 'command': 'vata -r expl -s load <file>', 'output': r2.stdout.decode()[-600:], 'what': bad}
    out.update({'automata_tried': tried})
    if found: out['reproduced'] = True; out['failing_input'] = found
except Exception as e:
    out['error'] = str(e)
print(json.dumps(out))
