#!/usr/bin/env python3
"""native replay of a C20 definite-initialisation violation: run BDD-automata intersections of the freshly built library under valgrind"""
import sys, json, os, subprocess, re
rin, work, seed = sys.argv[1], sys.argv[2], sys.argv[3]
rep = json.load(open(rin))
V = os.path.dirname(os.path.dirname(os.path.abspath(__file__)))
out = {'reproduced': False}
try:
    d = os.path.join(work, 'native')
    lib = subprocess.run([os.path.join(V, 'replay', 'build_lib.sh'), d], stdout=subprocess.PIPE, stderr=subprocess.PIPE, timeout=1500).stdout.decode().strip().split('\n')[-1]
    exe = os.path.join(d, 'c20_uninit')
    repo = os.environ.get('VERIF_REPO', '/repo')
    c = subprocess.run(['g++', '-std=c++11', '-O1', '-g', '-DNDEBUG', '-I%s/include' % repo, os.path.join(V, 'replay', 'c20_uninit.cc'), lib, '-o', exe], stdout=subprocess.PIPE, stderr=subprocess.PIPE, timeout=600)
    if c.returncode != 0:
        out['error'] = 'driver does not compile: ' + c.stderr.decode()[-500:]
    else:
        cmd = ['valgrind', '--error-exitcode=9', '--track-origins=yes', '-q', exe]
        r = subprocess.run(cmd, stdout=subprocess.PIPE, stderr=subprocess.STDOUT, timeout=900)
        txt = r.stdout.decode('utf-8', 'replace')
        src = os.path.basename((rep.get('source') or '').split(':')[0])
        hit = [l for l in txt.split('\n') if 'uninitialised' in l]
        loc = [l for l in txt.split('\n') if src and src in l]
        out.update({'command': 'g++ replay/c20_uninit.cc libvata.a && ' + ' '.join(cmd[:-1]) + ' ./c20_uninit', 'valgrind_exit': r.returncode,
                    'failing_input': 'Intersection of {a->q0, f(q0)->q1, final q1} with its renamed copy, BDD bottom-up and top-down encodings',
                    'excerpt': (hit[:2] + loc[:3])})
        out['reproduced'] = bool(r.returncode == 9 and hit and loc)
except Exception as e:
    out['error'] = str(e)
print(json.dumps(out))
