#!/usr/bin/env python3
"""syncmanifest.py: MANIFEST.json's level_note of every claimed check := '; '.join(props.json trusted_base); engine serves_properties := claimed ids.
The other fields of MANIFEST.json are edited by hand."""
import json, os
V = os.path.dirname(os.path.dirname(os.path.abspath(__file__)))
M = json.load(open(V + '/MANIFEST.json')); P = json.load(open(V + '/props.json'))
for c in M['checks']:
    p = P.get(c['property_id'])
    if p: c['level_note'] = '; '.join(p['trusted_base'])
M['engines'][0]['serves_properties'] = sorted(c['property_id'] for c in M['checks'])
json.dump(M, open(V + '/MANIFEST.json', 'w'), indent=1)
