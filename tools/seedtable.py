#!/usr/bin/env python3
"""seedtable.py: regenerate the seeded-change table of DESIGN.md 11.4 from seeded/*/meta.json (between the markers)."""
import json, glob, os, re
V = os.path.dirname(os.path.dirname(os.path.abspath(__file__)))
rows = []; n = 0; hit = 0; sup = 0
for d in sorted(glob.glob(V + '/seeded/*/meta.json')):
    m = json.load(open(d)); n += 1
    det = m.get('detected_by') or 'not run'
    files = ', '.join(os.path.basename(f) for f in m.get('files_changed', []))
    st = 'caught'
    if det.startswith('NOT DETECTED'): st = '**missed**'
    elif det.upper().startswith('SUPERSEDED') or det.startswith('(superseded'): st = 'superseded'; sup += 1
    elif det == 'not run': st = '?'
    else: hit += 1
    rows.append('| %s | %s | %s | %s |' % (m['id'], files, st, det.replace('|', '/')[:260]))
txt = ('%d changes under `seeded/<id>/` (`patch.diff`, demonstration, `meta.json`); each compiles, leaves the per-case results of the five test\n'
       'binaries unchanged, and its demonstration fails with the change and passes without.  Round 1: applied to `/repo` with `git apply`, checked with\n'
       '`tools/seedtest`, reverted with `git checkout -- .`; round 2: applied to a private copy of the working tree (`tools/seedtest2`, `VERIF_REPO`).\n'
       '%d caught, %d superseded by a repair, %d missed.\n\n'
       '| seed | file | verdict | by which obligation / why not |\n|------|------|---------|------|\n' % (n, hit, sup, n - hit - sup)) + '\n'.join(rows) + \
      '\n\nThe misses: C20-2 and C20-3 lie in the two inclusion functions no unit covers (`checkInternal`, `expand`: C01 is not claimed); C14-3 and C16-4 end *undecided* (exit 2, never a pass): the first replaces the loop structure the contracts of `ta_transsym` are attached to, the second needs `processRemove`, whose unit exists but exceeds the verifier\'s memory (11.2).'
p = V + '/DESIGN.md'; s = open(p).read()
if 'SEEDTABLE' in s: s = s.replace('SEEDTABLE', '<!-- seedtable:begin -->\n' + txt + '\n<!-- seedtable:end -->')
else: s = re.sub(r'<!-- seedtable:begin -->.*?<!-- seedtable:end -->', lambda _: '<!-- seedtable:begin -->\n' + txt + '\n<!-- seedtable:end -->', s, flags=re.S)
open(p, 'w').write(s); print(n, hit, sup)
