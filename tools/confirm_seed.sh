#!/bin/bash
# confirm_seed.sh <ID> <k>: independently confirm a seeded change delivered by a sub-agent in /tmp/mut_<ID>/out/<k>:
#   applies patch in the scratch worktree, rebuilds, runs the five test binaries (per-test-case results vs. unchanged tree),
#   runs the demonstration with and without the change.  Writes /tmp/mut_<ID>/out/<k>/confirm.txt
ID=$1; K=$2; WT=/tmp/mut_$ID; O=$WT/out/$K
cd $WT || exit 2
runtests() { for t in ondriks_mtbdd_c_test timbuk_parser_test bdd_bu_tree_aut_test bdd_td_tree_aut_test explicit_tree_aut_test; do (cd _build/unit_tests && timeout 900 ./$t --log_level=test_suite 2>&1 | grep -E "Entering test case|Leaving test case|error|aborted|fatal" | sed 's/; testing time.*//; s/^.*: //' ) ; done; }
git checkout -- src include 2>/dev/null
if [ ! -f $WT/out/base_tests.txt ]; then cmake --build _build -j8 >/dev/null 2>&1; runtests > $WT/out/base_tests.txt; fi
git apply $O/patch.diff || { echo "patch does not apply" > $O/confirm.txt; exit 2; }
cmake --build _build -j8 >/dev/null 2>&1 || { echo "build failed with change" > $O/confirm.txt; git checkout -- src include; exit 2; }
runtests > $O/tests_with_change.confirm.txt
if diff -q $WT/out/base_tests.txt $O/tests_with_change.confirm.txt >/dev/null; then T=same; else T=DIFFERENT; fi
(cd $WT && timeout 900 bash $O/run.sh >/dev/null 2>&1); D1=$?
git checkout -- src include
cmake --build _build -j8 >/dev/null 2>&1
(cd $WT && timeout 900 bash $O/run.sh >/dev/null 2>&1); D0=$?
echo "tests_vs_baseline=$T demo_exit_with_change=$D1 demo_exit_without_change=$D0" | tee $O/confirm.txt
