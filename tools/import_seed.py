#!/usr/bin/env python3
"""import_seed.py <ID> <k> <breaks-property> : copy a confirmed seeded change from /tmp/mut_<ID>/out/<k> to /verif/seeded/<ID>-<k>/"""
import sys, os, shutil, json, re
ID, k = sys.argv[1], sys.argv[2]
src = '/tmp/mut_%s/out/%s' % (ID, k); dst = '/verif/seeded/%s-%s' % (ID, k)
conf = open(os.path.join(src, 'confirm.txt')).read().strip()
assert 'tests_vs_baseline=same' in conf and 'demo_exit_without_change=0' in conf and 'demo_exit_with_change=0' not in conf, conf
os.makedirs(dst, exist_ok=True)
for f in os.listdir(src):
    p = os.path.join(src, f)
    if os.path.isfile(p) and os.path.getsize(p) < 200000 and not f.endswith(('.o', '.log')) and f not in ('demo',) and not os.access(p, os.X_OK) or f in ('run.sh',):
        shutil.copy(p, os.path.join(dst, f))
notes = open(os.path.join(src, 'notes.md')).read() if os.path.exists(os.path.join(src, 'notes.md')) else ''
patch = open(os.path.join(src, 'patch.diff')).read()
files = re.findall(r'^\+\+\+ b/(\S+)', patch, re.M)
meta = {'id': '%s-%s' % (ID, k), 'breaks_property': ID, 'files_changed': files,
        'needs_to_manifest': (re.search(r'(?is)(needs?[^\n]*manifest.*?)(\n#|\n\n\n|\Z)', notes).group(1)[:1500] if re.search(r'(?is)needs?[^\n]*manifest', notes) else notes[:1500]),
        'produced_by': 'independent sub-agent given only the property record and a scratch worktree',
        'confirmed_by_me': {'command': 'tools/confirm_seed.sh %s %s (scratch worktree /tmp/mut_%s: apply, rebuild, five Boost.Test binaries per-test-case vs unchanged tree, run.sh with and without the change)' % (ID, k, ID), 'result': conf},
        'detected_by': None}
json.dump(meta, open(os.path.join(dst, 'meta.json'), 'w'), indent=1)
print(dst, conf)
