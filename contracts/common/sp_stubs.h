/* stub generators for the ghost-counted shared_ptr (assumed contract of libstdc++'s shared_ptr: copy +1, destroy -1,
   unique() <=> count == 1, construction from a raw pointer = 1, move leaves the source empty) */
static void sp_release_(void** pp, void** pc) { struct GC* c = (struct GC*)*pc; if (c) { c->count--; if (c->count == 0) { g_sp_zero++; g_sp_zero_obj = *pp; } } *pp = 0; *pc = 0; }
#define DEF_SP_UNIQUE(F, SPB)  _Bool F(SPB* p) { struct GC* c = (struct GC*)p->f1.f0; return c != 0 && c->count == 1; }
#define DEF_SP_BOOL(F, SPB)    _Bool F(SPB* p) { return p->f0 != 0; }
#define DEF_SP_NULL(F, SP)     void F(SP* s, uint8_t* n) { SP_PTR(s) = 0; SP_CTRLV(s) = 0; }
#define DEF_SP_RAW(F, SP, T)   void F(SP* s, T* raw) { struct GC* c = malloc(sizeof *c); __CPROVER_assume(c != 0); c->count = 1; c->local = 0; SP_PTR(s) = raw; SP_CTRLV(s) = (void*)c; if (raw) OWNERS(raw) = c; }
#define DEF_SP_DTOR(F, SP)     void F(SP* s) { sp_release_((void**)&SP_PTR(s), (void**)&SP_CTRLV(s)); }
#define DEF_SP_MOVEASG(F, SP)  SP* F(SP* s, SP* r) { void* np = (void*)SP_PTR(r); void* nc = (void*)SP_CTRLV(r); SP_PTR(r) = 0; SP_CTRLV(r) = 0; \
                                  sp_release_((void**)&SP_PTR(s), (void**)&SP_CTRLV(s)); *(void**)&SP_PTR(s) = np; *(void**)&SP_CTRLV(s) = nc; return s; }
#define DEF_SP_COPY(F, SP)     void F(SP* s, SP* r) { SP_PTR(s) = SP_PTR(r); SP_CTRLV(s) = SP_CTRLV(r); if (SP_CTRL(r)) SP_CTRL(r)->count++; }
#define DEF_SP_COPY_LOCAL(F, SP) void F(SP* s, SP* r) { SP_PTR(s) = SP_PTR(r); SP_CTRLV(s) = SP_CTRLV(r); if (SP_CTRL(r)) { SP_CTRL(r)->count++; SP_CTRL(r)->local++; } }
#define DEF_SP_DTOR_LOCAL(F, SP) void F(SP* s) { if (SP_CTRL(s)) SP_CTRL(s)->local--; sp_release_((void**)&SP_PTR(s), (void**)&SP_CTRLV(s)); }
/* harness helper: an arbitrary shared object with an arbitrary (>= 1) number of owners */
#define DEF_MK_SHARED(NAME, SP, T) static void NAME(SP* s) { T* o = malloc(sizeof *o); struct GC* c = malloc(sizeof *c); __CPROVER_assume(o && c); \
                                  __CPROVER_assume(c->count >= 1 && c->local == 0); OWNERS(o) = c; SP_PTR(s) = o; SP_CTRLV(s) = (void*)c; }
#define DEF_SP_USECOUNT(F, SPB) uint64_t F(SPB* p) { struct GC* c = (struct GC*)p->f1.f0; return c ? c->count : 0; }
