/* Ghost-counted std::shared_ptr (DESIGN.md 3.3).  The real layout is kept: shared_ptr = { __shared_ptr { T* ptr; __shared_count { ctrl* } } };
   the control block is replaced by the ghost block GC.  Containers reached through a shared_ptr are opaque to the translated code
   (every operation on them is a stub), so their first two words hold ghosts: an abstract CONTENT id and a back pointer to the
   control block that owns the object.  `local` counts references held by temporaries / locals of the running function. */
struct GC { uint64_t count; uint64_t local; };
#define SP_PTR(sp)    ((sp)->f0.f0)
#define SP_CTRLV(sp)  ((sp)->f0.f1.f0)
#define SP_CTRL(sp)   ((struct GC*)SP_CTRLV(sp))
#define CONTENT(o)    (((uint64_t*)(o))[0])
#define OWNERS(o)     (((struct GC**)(o))[1])
#define EXCL(o)       (OWNERS(o) != 0 && OWNERS(o)->count - OWNERS(o)->local == 1)   /* exactly one owner besides the function's own temporaries */
uint64_t g_sp_zero; void* g_sp_zero_obj;      /* how often a count reached 0 (the object would be destroyed), and the last such object */
#define SP_GHOSTS g_sp_zero, g_sp_zero_obj
