/* layer 1 of the MTBDD contracts (DESIGN.md 3.1): nodes as concrete memory.
   A node pointer is the 64-bit word addr_; bit 0 is the leaf tag.
   IN = InternalNode<unsigned> { low_, high_, var_, refcnt_ }  (f0.f0, f1.f0, f2, f3)
   LF = LeafNode<unsigned>     { data_, refcnt_ }               (f0, f1)          */
#define M_IS_LEAF(a) (((a) & 1) == 1)
#define M_IS_INT(a)  (((a) & 1) == 0)
#define M_INT(a)     ((IN*)(a))
#define M_LEAF(a)    ((LF*)((a) ^ 1))
#define M_VAR(a)     (M_INT(a)->f2)
#define M_LOW(a)     (M_INT(a)->f0.f0)
#define M_HIGH(a)    (M_INT(a)->f1.f0)
#define M_IRC(a)     (M_INT(a)->f3)
#define M_DATA(a)    (M_LEAF(a)->f0)
#define M_LRC(a)     (M_LEAF(a)->f1)
/* harness helper: an arbitrary node (leaf or internal) with arbitrary fields in fresh memory */
#define M_MK_NODE_DEF \
static uint64_t mk_node(void) { \
  _Bool leaf; \
  if (leaf) { LF* l = malloc(sizeof *l); __CPROVER_assume(l != 0); uint32_t d; uint64_t r; l->f0 = d; l->f1 = r; return (uint64_t)l | 1; } \
  IN* n = malloc(sizeof *n); __CPROVER_assume(n != 0); uint64_t a, b, c, d; n->f0.f0 = a; n->f1.f0 = b; n->f2 = c; n->f3 = d; return (uint64_t)n; }
