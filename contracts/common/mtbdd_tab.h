/* Layer 2 of the MTBDD contracts (DESIGN.md 3.1): the immutable fields of nodes and the semantic function are
   unbounded nondeterministic TABLES indexed by the node word (calls are not allowed in loop invariants, tables are).
   T_VAL is "the value the diagram rooted at n returns for the ghost assignment T_BIT"; its defining equations
   (UNFOLD_*) and the well-formedness of the store (ordered, reduced, children non-null) are instantiated at
   exactly the nodes a function touches, inside the layer-1 contract of the accessor that touches them. */
extern uint64_t T_VAR[__CPROVER_constant_infinity_uint];
extern uint64_t T_LOW[__CPROVER_constant_infinity_uint];
extern uint64_t T_HIGH[__CPROVER_constant_infinity_uint];
extern uint32_t T_DATA[__CPROVER_constant_infinity_uint];
extern uint32_t T_VAL[__CPROVER_constant_infinity_uint];
extern uint8_t  T_BIT[__CPROVER_constant_infinity_uint];    /* ghost assignment over variables; only "== 2" (ONE) is observed */
#define ISLEAF(n)  (((n) & 1) == 1)
#define ISINT(n)   (((n) & 1) == 0)
#define LEVEL(n)   (ISLEAF(n) ? (uint64_t)0 : T_VAR[n] + 1)          /* 0 for leaves, var+1 for internal nodes */
#define WF_INT(n)  (T_LOW[n] != 0 && T_HIGH[n] != 0 && T_LOW[n] != T_HIGH[n] /* reduced */ \
                    && T_VAR[n] < UINT64_MAX && LEVEL(T_LOW[n]) <= T_VAR[n] && LEVEL(T_HIGH[n]) <= T_VAR[n] /* ordered */)
#define UNFOLD_INT(n)  (T_VAL[n] == (T_BIT[T_VAR[n]] == 2 ? T_VAL[T_HIGH[n]] : T_VAL[T_LOW[n]]) && WF_INT(n))
#define UNFOLD_LEAF(n) (T_VAL[n] == T_DATA[n])
/* ghosts written by the layer-2 stubs */
uint64_t ring_var[4]; uint32_t ring_data[4]; uint64_t ring_rc[2]; uint64_t ring_i;   /* cells handed out by reference-returning accessors */
uint64_t g_inc_calls, g_inc_arg;                 /* IncrementRefCnt                          */
uint64_t g_rc_epoch;                             /* bumped by everything that may change a reference count */
uint64_t g_rcread_node, g_rcread_val, g_rcread_epoch;   /* last GetLeafRefCnt                                */
uint64_t g_dleaf_calls, g_dleaf_arg;             /* disposeOfLeafNode                        */
uint64_t g_spawn_int_calls;
#define TAB_GHOSTS ring_var, ring_data, ring_rc, ring_i, g_inc_calls, g_inc_arg, g_rc_epoch, g_rcread_node, g_rcread_val, g_rcread_epoch, g_dleaf_calls, g_dleaf_arg, g_spawn_int_calls
