/* Layer-2 contract stubs (assumed here, proved in units mtbdd_l1 / mtbdd_rc against concrete memory; the bridge
   "fields of an allocated node never change" is the frame obligation of every function of those units). */
_Bool nondet_bool(void);
#ifndef EXTRA_UNFOLD_INT
#define EXTRA_UNFOLD_INT(n) 1
#define EXTRA_UNFOLD_LEAF(n) 1
#endif
#define PRE_INT(p)  __CPROVER_assert((p)->f0 != 0 && ISINT((p)->f0), "accessor precondition: internal node")
uint64_t* GET_VAR(NP* p)   { PRE_INT(p); __CPROVER_assume(UNFOLD_INT(p->f0) && EXTRA_UNFOLD_INT(p->f0)); uint64_t* c = &ring_var[ring_i++ & 3]; *c = T_VAR[p->f0]; return c; }
uint64_t* GET_VAR_C(NP* p) { PRE_INT(p); __CPROVER_assume(UNFOLD_INT(p->f0) && EXTRA_UNFOLD_INT(p->f0)); uint64_t* c = &ring_var[ring_i++ & 3]; *c = T_VAR[p->f0]; return c; }
uint64_t GET_LOW(NP* p)    { PRE_INT(p); __CPROVER_assume(UNFOLD_INT(p->f0) && EXTRA_UNFOLD_INT(p->f0)); return T_LOW[p->f0]; }
uint64_t GET_LOW_C(NP* p)  { PRE_INT(p); __CPROVER_assume(UNFOLD_INT(p->f0) && EXTRA_UNFOLD_INT(p->f0)); return T_LOW[p->f0]; }
uint64_t GET_HIGH(NP* p)   { PRE_INT(p); __CPROVER_assume(UNFOLD_INT(p->f0) && EXTRA_UNFOLD_INT(p->f0)); return T_HIGH[p->f0]; }
uint64_t GET_HIGH_C(NP* p) { PRE_INT(p); __CPROVER_assume(UNFOLD_INT(p->f0) && EXTRA_UNFOLD_INT(p->f0)); return T_HIGH[p->f0]; }
uint32_t* GET_DATA(NP* p)  { __CPROVER_assert(p->f0 != 0 && ISLEAF(p->f0), "accessor precondition: leaf node"); __CPROVER_assume(UNFOLD_LEAF(p->f0) && EXTRA_UNFOLD_LEAF(p->f0)); uint32_t* c = &ring_data[ring_i++ & 3]; *c = T_DATA[p->f0]; return c; }
uint64_t* GET_LEAF_RC(uint64_t n) { __CPROVER_assert(n != 0 && ISLEAF(n), "accessor precondition: leaf node"); uint64_t v; uint64_t* c = &ring_rc[ring_i++ & 1]; *c = v; g_rcread_node = n; g_rcread_val = v; g_rcread_epoch = g_rc_epoch; return c; }
void INC_RC(uint64_t n)    { __CPROVER_assert(n != 0, "IncrementRefCnt precondition: non-null node"); g_inc_calls++; g_inc_arg = n; g_rc_epoch++; }
/* spawnLeaf / spawnInternal: contracts proved in unit mtbdd_rc (POST_SPAWN_LEAF / POST_SPAWN_INT there), read over the tables */
uint64_t SPAWN_LEAF(uint32_t* d) { uint64_t r; __CPROVER_assume(r != 0 && ISLEAF(r) && T_DATA[r] == *d && UNFOLD_LEAF(r)); return r; }
uint64_t SPAWN_INT(uint64_t l, uint64_t h, uint64_t* v) {
  __CPROVER_assert(l != 0 && h != 0, "spawnInternal precondition: children non-null");
#ifndef NO_REDUCED_CHECK
  __CPROVER_assert(l != h, "C17 reduced: spawnInternal is never asked for low == high");
#endif
  __CPROVER_assert(*v < UINT64_MAX && LEVEL(l) <= *v && LEVEL(h) <= *v, "C17 ordered: variables of the children are below the new node's variable");
  uint64_t r; __CPROVER_assume(r != 0 && ISINT(r) && T_LOW[r] == l && T_HIGH[r] == h && T_VAR[r] == *v && UNFOLD_INT(r)); g_rc_epoch++; g_spawn_int_calls++; return r; }
void DLEAF(uint64_t n) { __CPROVER_assert(n != 0 && ISLEAF(n) && g_rcread_node == n && g_rcread_val == 0 && g_rcread_epoch == g_rc_epoch, "C18 precondition of disposeOfLeafNode: its reference count was just read as 0");
  g_dleaf_calls++; g_dleaf_arg = n; }
