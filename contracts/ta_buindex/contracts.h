/* Unit ta_buindex (DESIGN.md 5-C02, 11): VATA::bottomUpIndex(aut, bottomUpIndex, leaves, symbolIndex) -- the index IntersectionBU is driven by: a rule
   a(q1..qn) -> q is found again from EACH of its children.  Witness rule (wq, wa, wtid) of aut (present iff has_w), n = LEN(wtid), witness position wk:
     n == 0           ==>  leaves[SYM(wa)] gets the transition (wtid, SYM(wa), wq)
     n > 0, wk < n    ==>  bottomUpIndex[CHILD(wtid, wk)][SYM(wa)][wk] gets the transition (wtid, SYM(wa), wq)        (completeness, every position)
   Call-site obligations (provenance): a transition object is built from the tuple / symbol / parent under the cursors; it is pushed only into the
   slot (child at position i, its symbol, i) for the position i in hand; the list vector is resized before it is indexed (C20). */
uint64_t wq, wa, wtid, wk; _Bool has_w, pushed_w, pushed_leaf_w;
_Bool seen_q, cur_q, seen_a, cur_a, seen_t, cur_t, g_leafmode; uint64_t g_pos, g_len, g_rank, g_cur_tid, g_cur_q, g_cur_a, g_cur_sym, cell_child, cell_at;
uint64_t g_tr_tid, g_at_state, g_at_sym, g_at_pos, g_itl_size; _Bool g_tr_valid, g_sp_valid, g_at1, g_at2, g_at3, g_leaf_at;
E_CMAP cell_cm; E_CLU cell_clu; SPV cell_tup; AUT* g_aut; void *m_src, *g_bui, *g_leaves, *g_symidx, *g_trcell;
#define WN (has_w)
#define G_AT   g_at_state, g_at_sym, g_at_pos, g_itl_size, g_at1, g_at2, g_at3, cell_at
#define G_L4   g_pos, cell_child, pushed_w, G_AT
#define G_L3   G_L4, seen_t, cur_t, g_cur_tid, g_len, cell_tup, g_tr_tid, g_tr_valid, g_sp_valid, pushed_leaf_w
#define G_L2   G_L3, seen_a, cur_a, cell_clu, g_cur_a, g_cur_sym, g_rank, g_leafmode, g_leaf_at
#define G_L1   G_L2, seen_q, cur_q, cell_cm, g_cur_q
#define DONE   ((LENW == 0 ==> pushed_leaf_w) && (wk < LENW ==> pushed_w))
#define CONTRACT_BUI \
  __CPROVER_requires(v_aut == g_aut && v_bottomUpIndex == g_bui && v_leaves == g_leaves && v_symbolIndex == g_symidx && !pushed_w && !pushed_leaf_w) \
  __CPROVER_assigns(G_L1) \
  __CPROVER_ensures(has_w ==> DONE)
uint64_t LENW;
#define LOOPASG_BUI__L_OWNERS , G_L1
#define LOOP_BUI__L_OWNERS \
  __CPROVER_loop_invariant(END_BUI__L_OWNERS.f0.f0 == 0) \
  __CPROVER_loop_invariant((WN && BEGIN_BUI__L_OWNERS.f0.f0 == 0) ==> seen_q) \
  __CPROVER_loop_invariant((WN && seen_q) ==> DONE)
#define LOOPASG_BUI__L_SYMS , G_L2
#define LOOP_BUI__L_SYMS \
  __CPROVER_loop_invariant(END_BUI__L_SYMS.f0.f0 == 0 && (cur_q ==> g_cur_q == wq)) \
  __CPROVER_loop_invariant((WN && cur_q && BEGIN_BUI__L_SYMS.f0.f0 == 0) ==> seen_a) \
  __CPROVER_loop_invariant((WN && cur_q && seen_a) ==> DONE) \
  __CPROVER_loop_invariant((WN && !cur_q && seen_q) ==> DONE)
#define CARRY3 __CPROVER_loop_invariant((cur_q ==> g_cur_q == wq) && (cur_a ==> (g_cur_a == wa && g_rank == LENW))) \
  __CPROVER_loop_invariant((WN && cur_q && !cur_a && seen_a) ==> DONE) \
  __CPROVER_loop_invariant((WN && !cur_q && seen_q) ==> DONE)
#define LOOPASG_BUI__L_LEAVES , G_L3
#define LOOP_BUI__L_LEAVES CARRY3 \
  __CPROVER_loop_invariant(END_BUI__L_LEAVES.f0 == 0 && g_rank == 0 && g_leafmode && g_leaf_at) \
  __CPROVER_loop_invariant((WN && cur_q && cur_a && BEGIN_BUI__L_LEAVES.f0 == 0) ==> seen_t) \
  __CPROVER_loop_invariant((WN && cur_q && cur_a && seen_t) ==> DONE)
#define LOOPASG_BUI__L_TUPLES , G_L3
#define LOOP_BUI__L_TUPLES CARRY3 \
  __CPROVER_loop_invariant(END_BUI__L_TUPLES.f0 == 0 && g_rank != 0 && !g_leafmode) \
  __CPROVER_loop_invariant((WN && cur_q && cur_a && BEGIN_BUI__L_TUPLES.f0 == 0) ==> seen_t) \
  __CPROVER_loop_invariant((WN && cur_q && cur_a && seen_t) ==> DONE)
#define LOOPASG_BUI__L_POS , G_L4
#define LOOP_BUI__L_POS CARRY3 \
  __CPROVER_loop_invariant(END_BUI__L_POS.f0 == 0 && g_pos <= g_len && v_i_slot == g_pos && g_len == g_rank && g_rank != 0 && g_tr_valid && g_sp_valid && g_tr_tid == g_cur_tid && (cur_t ==> g_cur_tid == wtid)) \
  __CPROVER_loop_invariant((BEGIN_BUI__L_POS.f0 == 0) == (g_pos == g_len)) \
  __CPROVER_loop_invariant((WN && cur_q && cur_a && cur_t && wk < g_pos) ==> pushed_w) \
  __CPROVER_loop_invariant((WN && cur_q && cur_a && !cur_t && seen_t) ==> DONE)
