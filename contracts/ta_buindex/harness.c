#define CANARY(n) __CPROVER_assert(0, "canary: " n " reaches the end (must FAIL)")
#define TOK ((void*)(uintptr_t)8)
#define MAYBE (nondet_bool() ? TOK : (void*)0)
#define TOKA ((void*)(uintptr_t)16)   /* bottomUpIndex[state] */
#define TOKB ((void*)(uintptr_t)24)   /* ...[symbol] : the vector of lists */
#define TOKC ((void*)(uintptr_t)32)   /* ...[i] : one list */
#define TOKL ((void*)(uintptr_t)40)   /* leaves[symbol] */
#define SP_PTR(sp) ((sp)->f0.f0)
_Bool nondet_bool(void); uint64_t nondet_u64(void);
uint64_t __CPROVER_uninterpreted_LEN(uint64_t tid); uint64_t __CPROVER_uninterpreted_CHILD(uint64_t tid, uint64_t k); uint64_t __CPROVER_uninterpreted_SYM(uint64_t a);
void* VERIF_new(uint64_t n) { return g_trcell; } void VERIF_delete(void* p) { }
/* ---- the nested rule store: witness traversal ---- */
void* CMAP_BEGIN(void* m) { __CPROVER_assert(m == m_src, "traversal of the cluster map of aut"); seen_q = 0; cur_q = 0; return has_w ? TOK : MAYBE; }
void* CMAP_END(void* m) { return (void*)0; }
void* CMAP_DEREF(void* it_) { CMI* it = (CMI*)it_; __CPROVER_assert(it->f0.f0 != 0, "no dereference of an end iterator"); cur_q = has_w && nondet_bool() && !seen_q; if (cur_q) seen_q = 1;
  uint64_t k = nondet_u64(); if (cur_q) k = wq; else __CPROVER_assume(!has_w || k != wq); cell_cm.f0 = k; g_cur_q = k; SP_PTR(&cell_cm.f1) = TOK; return &cell_cm; }
void* CMAP_INC(void* it_) { CMI* it = (CMI*)it_; it->f0.f0 = MAYBE; __CPROVER_assume(it->f0.f0 != 0 || !has_w || seen_q); return it; }
void* CLU_BEGIN(void* c) { seen_a = 0; cur_a = 0; return (has_w && cur_q) ? TOK : MAYBE; }
void* CLU_END(void* c) { return (void*)0; }
void* CLU_DEREF(void* it_) { CLI* it = (CLI*)it_; __CPROVER_assert(it->f0.f0 != 0, "no dereference of an end iterator"); cur_a = has_w && cur_q && nondet_bool() && !seen_a; if (cur_a) seen_a = 1;
  uint64_t k = nondet_u64(); if (cur_a) k = wa; else __CPROVER_assume(!(has_w && cur_q) || k != wa); cell_clu.f0 = k; g_cur_a = k; SP_PTR(&cell_clu.f1) = TOK;
  g_rank = cur_a ? LENW : nondet_u64();      /* store invariant (ranked alphabet): all tuples under one symbol of one cluster have this length */
  g_leafmode = 0; g_leaf_at = 0; return &cell_clu; }
void* CLU_INC(void* it_) { CLI* it = (CLI*)it_; it->f0.f0 = MAYBE; __CPROVER_assume(it->f0.f0 != 0 || !(has_w && cur_q) || seen_a); return it; }
uint64_t SYMIDX(void* tr, uint64_t* a) { __CPROVER_assert(tr == g_symidx && *a == g_cur_a, "the symbol under the cursor is translated by the index passed in"); g_cur_sym = __CPROVER_uninterpreted_SYM(*a); return g_cur_sym; }
void* TSET_BEGIN(void* t) { seen_t = 0; cur_t = 0; return TOK; /* a tuple set is never empty (store invariant NE) */ }
void* TSET_END(void* t) { return (void*)0; }
void* RBI_DEREF(void* it_) { RBI* it = (RBI*)it_; __CPROVER_assert(it->f0 != 0, "no dereference of an end iterator"); cur_t = has_w && cur_q && cur_a && nondet_bool() && !seen_t; if (cur_t) seen_t = 1;
  uint64_t k = nondet_u64(); if (cur_t) k = wtid; else __CPROVER_assume(!(has_w && cur_q && cur_a) || k != wtid); __CPROVER_assume(__CPROVER_uninterpreted_LEN(k) == g_rank);
  g_cur_tid = k; g_len = g_rank; SP_PTR(&cell_tup) = TOK; g_tr_valid = 0; g_sp_valid = 0; return &cell_tup; }
void* RBI_INC(void* it_) { RBI* it = (RBI*)it_; it->f0 = MAYBE; __CPROVER_assume(it->f0 != 0 || !(has_w && cur_q && cur_a) || seen_t); return it; }
_Bool VEC_EMPTY(void* v) { g_leafmode = (g_len == 0); return g_len == 0; }
uint64_t* TUP_BEGIN(void* v) { g_pos = 0; return (uint64_t*)(g_len > 0 ? TOK : (void*)0); }
uint64_t* TUP_END(void* v) { return (uint64_t*)0; }
uint64_t* NIT_DEREF(void* it_) { NIT* it = (NIT*)it_; __CPROVER_assert(it->f0 != 0, "no dereference of an end iterator"); cell_child = __CPROVER_uninterpreted_CHILD(g_cur_tid, g_pos); return &cell_child; }
void* NIT_INC(void* it_) { NIT* it = (NIT*)it_; g_pos++; it->f0 = (uint64_t*)(g_pos < g_len ? TOK : (void*)0); return it; }
uint64_t* TUP_AT(void* v, uint64_t i) { __CPROVER_assert(i < g_len, "C20: a tuple is indexed within its length"); cell_at = __CPROVER_uninterpreted_CHILD(g_cur_tid, i); return &cell_at; }
/* ---- the transition object of the rule under the cursors ---- */
void TR_CTOR(void* self, void* tup, uint64_t* sym, uint64_t* parent) { __CPROVER_assert(self == g_trcell && tup == (void*)&cell_tup && *sym == g_cur_sym && *parent == g_cur_q,
    "C02: the indexed transition is built from the tuple, the translated symbol and the parent under the cursors"); g_tr_tid = g_cur_tid; g_tr_valid = 1; }
void SPT_RAW(void* sp, void* raw) { __CPROVER_assert(raw == g_trcell && g_tr_valid, "the shared_ptr takes the transition just built"); SP_PTR((SPT*)sp) = raw; g_sp_valid = 1; }
void SPT_DTOR(void* sp) { }
/* ---- leaves[symbol] ---- */
void* LEAVES_AT(void* m, uint64_t* sym) { __CPROVER_assert(m == g_leaves && *sym == g_cur_sym, "leaves is indexed by the translated symbol under the cursor"); g_leaf_at = 1; return TOKL; }
void TL_PUSH_MV(void* l, void* sp) { __CPROVER_assert(l == TOKL && g_leaf_at && g_leafmode && g_sp_valid && g_tr_valid && g_tr_tid == g_cur_tid && g_len == 0, "C02: a leaf rule under the cursors is registered under its symbol in leaves");
  if (cur_q && cur_a && cur_t) pushed_leaf_w = 1; }
/* ---- bottomUpIndex[state][symbol][i] ---- */
void* BUI_AT(void* m, uint64_t* st) { __CPROVER_assert(m == g_bui, "the index passed in"); g_at_state = *st; g_at1 = 1; g_at2 = 0; g_at3 = 0; return TOKA; }
void* BUI2_AT(void* m, uint64_t* sym) { __CPROVER_assert(m == TOKA && g_at1, "the symbol level of the entry just looked up"); g_at_sym = *sym; g_at2 = 1; g_at3 = 0; g_itl_size = nondet_u64(); return TOKB; }
uint64_t ITL_SIZE(void* v) { __CPROVER_assert(v == TOKB && g_at2, "size of the list vector just looked up"); return g_itl_size; }
void ITL_RESIZE(void* v, uint64_t n) { __CPROVER_assert(v == TOKB && g_at2 && n > g_itl_size, "the list vector only grows"); g_itl_size = n; }
void* ITL_AT(void* v, uint64_t i) { __CPROVER_assert(v == TOKB && g_at2 && i < g_itl_size, "C20: the list vector is indexed within its (resized) size"); g_at_pos = i; g_at3 = 1; return TOKC; }
void TL_PUSH(void* l, void* sp) { __CPROVER_assert(l == TOKC && g_at1 && g_at2 && g_at3 && g_sp_valid && g_tr_valid && g_tr_tid == g_cur_tid, "the transition of the tuple under the cursor is pushed into the slot just looked up");
  __CPROVER_assert(g_at_pos == g_pos && g_at_sym == g_cur_sym && g_at_state == __CPROVER_uninterpreted_CHILD(g_cur_tid, g_pos), "C02: a rule is registered under (its child at position i, its symbol, i) for the position i in hand");
  if (cur_q && cur_a && cur_t && g_pos == wk) pushed_w = 1; }
void h_BUI(void) { g_aut = malloc(sizeof *g_aut); m_src = malloc(64); g_bui = malloc(8); g_leaves = malloc(8); g_symidx = malloc(8); g_trcell = malloc(32); __CPROVER_assume(g_aut && m_src && g_bui && g_leaves && g_symidx && g_trcell);
  SP_PTR(&g_aut->f2) = m_src; LENW = __CPROVER_uninterpreted_LEN(wtid); pushed_w = 0; pushed_leaf_w = 0;
  BUI(g_aut, g_bui, g_leaves, g_symidx); CANARY("h_BUI"); }
