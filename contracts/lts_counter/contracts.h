/* Unit lts_counter (DESIGN.md 5-C16): SharedCounter -- per block, label and state "how many successors lie in related blocks",
   stored in rows of rowSize counters that blocks SHARE copy-on-write; a row is { master_ = sum of its counters, data_ = array of
   rowSize counters followed by the array's reference count, or null when the whole sum sits in one counter }.
   Contracts are written from how the engine uses the class (set only in init, decr only in processRemove whose result is only
   compared with zero).  The row in hand is g_row; g_col the column; g_wc an arbitrary WITNESS column of the same row.
   ROW ARRAYS ARE A CELL MAP: raw indexing arr[i] of a word array is routed (translator hook VERIF_IDX64) to the cell for (array, i),
   i in { g_col, g_RS (the reference count), g_wc }, any other column being an untracked scratch cell, with i <= rowSize asserted;
   index / rowSize and index % rowSize are uninterpreted at the one point they are evaluated (hooks VERIF_UDIV64 / VERIF_UREM64),
   with index % rowSize < rowSize.  Hence rowSize is an arbitrary 64-bit value >= 1: no bound. */
uint64_t g_RS, g_col, g_wc, g_index, g_rowIndex; ROW* g_row; SC* g_sc;
uint64_t g_master0, g_cnt0, g_rc0, g_wcnt0; uint64_t* g_arr0; uint64_t* g_fresh; uint64_t g_reclaims; uint64_t* g_reclaimed; uint64_t g_allocs;
uint64_t cell_key; ROW* g_scratch_row; uint64_t* g_scratch_arr; _Bool seenr, curr; uint64_t g_w_reclaimed;
uint64_t c0_col, c0_rc, c0_w, cf_col, cf_rc, cf_w, c_scratch;       /* cells of the old array A0 = g_arr0 and of the fresh array AF = g_fresh */
#define A0(i) (*((i) == g_col ? &c0_col : ((i) == g_RS ? &c0_rc : &c0_w)))
#define AF(i) (*((i) == g_col ? &cf_col : ((i) == g_RS ? &cf_rc : &cf_w)))
#define CUR(i) (*(g_row->f1 == g_fresh ? &AF(i) : &A0(i)))          /* cell of the array the row points to now */
#define CG g_reclaims, g_reclaimed, g_allocs, cell_key, seenr, curr, g_w_reclaimed, c0_col, c0_rc, c0_w, cf_col, cf_rc, cf_w, c_scratch
/* decr(label, state): the row's total and the addressed counter go down by one; a SHARED array is never written except for its
   reference count (the other blocks keep their view); the compression case releases the array */
#define CONTRACT_DECR \
  __CPROVER_requires(v_this == g_sc && g_reclaims == 0 && g_allocs == 0) \
  __CPROVER_requires(g_row->f0 == g_master0 && g_master0 >= 1 && g_row->f1 == g_arr0 && (g_arr0 != 0 ==> (A0(g_col) == g_cnt0 && g_cnt0 >= 1 && A0(g_RS) == g_rc0 && g_rc0 >= 1 && A0(g_wc) == g_wcnt0))) \
  __CPROVER_assigns(CG, g_row->f0, g_row->f1) \
  __CPROVER_ensures(g_row->f0 == g_master0 - 1) \
  __CPROVER_ensures(g_arr0 == 0 ==> (__CPROVER_return_value == g_master0 - 1 && g_row->f1 == 0)) \
  __CPROVER_ensures(g_arr0 != 0 ==> __CPROVER_return_value == g_cnt0 - 1) \
  __CPROVER_ensures((g_arr0 != 0 && g_rc0 > 1) ==> (A0(g_wc) == g_wcnt0 && A0(g_col) == g_cnt0 && A0(g_RS) == g_rc0 - 1 && g_row->f1 != g_arr0 && g_reclaims == 0)) \
  __CPROVER_ensures((g_arr0 != 0 && (g_master0 == g_cnt0 || g_master0 == 2)) ==> (g_row->f1 == 0 && (g_rc0 == 1 ? (g_reclaims == 1 && g_reclaimed == g_arr0) : g_reclaims == 0))) \
  __CPROVER_ensures((g_arr0 != 0 && !(g_master0 == g_cnt0 || g_master0 == 2)) ==> (g_row->f1 != 0 && CUR(g_RS) == 1 && CUR(g_col) == g_cnt0 - 1 && (g_wc != g_col ==> CUR(g_wc) == g_wcnt0)))
/* set(label, state, count): first counter of a row: fresh array, "count 0" marks the compact form; later counters: exclusive array */
#define CONTRACT_SET \
  __CPROVER_requires(v_this == g_sc && v_count >= 1 && g_allocs == 0 && g_reclaims == 0) \
  __CPROVER_requires(g_row->f0 == g_master0 && g_master0 <= UINT64_MAX - v_count && g_row->f1 == g_arr0 && (g_master0 != 0 ==> (g_arr0 != 0 && A0(g_RS) <= 1 && A0(g_wc) == g_wcnt0))) \
  __CPROVER_assigns(CG, g_row->f0, g_row->f1) \
  __CPROVER_ensures(g_row->f0 == g_master0 + v_count && g_row->f1 != 0 && CUR(g_col) == v_count && g_reclaims == 0) \
  __CPROVER_ensures(g_master0 != 0 ==> (g_row->f1 == g_arr0 && A0(g_RS) == 1 && g_allocs == 0 && (g_wc != g_col ==> A0(g_wc) == g_wcnt0))) \
  __CPROVER_ensures(g_master0 == 0 ==> (g_row->f1 == g_fresh && g_allocs == 1 && AF(g_RS) == 0))
/* init(): every row (witness row g_row) whose array is not in regular form (count != 1) is put into compact form: array reclaimed once, data_ = null;
   the total is kept */
#define ROWS_TOK(s) ((uint64_t)(s).f0)
#define CONTRACT_INIT \
  __CPROVER_requires(v_this == g_sc && g_reclaims == 0 && g_row->f0 == g_master0 && g_row->f1 == g_arr0 && (g_arr0 != 0 ==> A0(g_RS) == g_rc0) && !seenr) \
  __CPROVER_assigns(CG, g_row->f1, g_scratch_row->f0, g_scratch_row->f1) \
  __CPROVER_ensures(g_row->f0 == g_master0) \
  __CPROVER_ensures((g_arr0 != 0 && g_rc0 != 1) ==> (g_row->f1 == 0)) \
  __CPROVER_ensures((g_arr0 == 0 || g_rc0 == 1) ==> g_row->f1 == g_arr0)
#define LOOPASG_INIT__B_for_cond , CG, g_row->f1, g_scratch_row->f0, g_scratch_row->f1
#define LOOP_INIT__B_for_cond \
  __CPROVER_loop_invariant(ROWS_TOK(v___end1_slot) == 0 && g_row->f0 == g_master0) \
  __CPROVER_loop_invariant(ROWS_TOK(v___begin1_slot) == 0 ==> seenr) \
  __CPROVER_loop_invariant(!seenr ==> (g_row->f1 == g_arr0 && (g_arr0 != 0 ==> A0(g_RS) == g_rc0))) \
  __CPROVER_loop_invariant(seenr ==> ((g_arr0 != 0 && g_rc0 != 1) ? g_row->f1 == 0 : g_row->f1 == g_arr0))
/* ~SharedCounter(): every row that points to an array gives up its reference; the array is reclaimed exactly when that was the last one */
#define CONTRACT_DTOR \
  __CPROVER_requires(v_this == g_sc && g_w_reclaimed == 0 && g_row->f1 == g_arr0 && (g_arr0 != 0 ==> (A0(g_RS) == g_rc0 && g_rc0 >= 1)) && !seenr) \
  __CPROVER_assigns(CG, g_scratch_row->f0, g_scratch_row->f1) \
  __CPROVER_ensures(g_arr0 != 0 ==> (A0(g_RS) == g_rc0 - 1 && g_w_reclaimed == (g_rc0 == 1 ? 1 : 0))) \
  __CPROVER_ensures(g_arr0 == 0 ==> g_w_reclaimed == 0)
#define LOOPASG_DTOR__B_for_cond , CG, g_scratch_row->f0, g_scratch_row->f1
#define LOOP_DTOR__B_for_cond \
  __CPROVER_loop_invariant(ROWS_TOK(v___end1_slot) == 0 && g_row->f1 == g_arr0) \
  __CPROVER_loop_invariant(ROWS_TOK(v___begin1_slot) == 0 ==> seenr) \
  __CPROVER_loop_invariant((!seenr && g_arr0 != 0) ==> (A0(g_RS) == g_rc0 && g_w_reclaimed == 0)) \
  __CPROVER_loop_invariant((seenr && g_arr0 != 0) ==> (A0(g_RS) == g_rc0 - 1 && g_w_reclaimed == (g_rc0 == 1 ? 1 : 0))) \
  __CPROVER_loop_invariant(g_arr0 == 0 ==> g_w_reclaimed == 0)
