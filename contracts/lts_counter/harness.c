#define CANARY(n) __CPROVER_assert(0, "canary: " n " reaches the end (must FAIL)")
_Bool nondet_bool(void); uint64_t nondet_u64(void);
#define TOK(T) ((T)(uintptr_t)8)
#define MAYBE(T) (nondet_bool() ? TOK(T) : (T)0)
/* key vector and row vector */
uint64_t* KEY_AT(KVEC* k, uint64_t i) { __CPROVER_assert(k == g_sc->f0, "the key vector of this counter"); cell_key = g_index;   /* the content of key_ at that position: arbitrary */ return &cell_key; }
ROW* ROW_AT(RVEC* v, uint64_t r) { __CPROVER_assert(v == &g_sc->f5 && r == g_rowIndex, "data_[index / rowSize_] of this counter"); return g_row; }
/* allocator: a fresh array of rowSize + 1 words; reclaim only records */
uint64_t* ALLOC(ALC* a) { g_allocs++; return g_fresh; }
void RECLAIM(ALC* a, uint64_t* p) { g_reclaims++; g_reclaimed = p; if (p == g_arr0) g_w_reclaimed++; }
/* memcpy(new, old, rowSize * 8): contract instantiated at the column in hand and the witness column */
void* VERIF_memcpy_witness(void* d, const void* s, uint64_t n) { __CPROVER_assert(n == g_RS * 8 && d == (void*)g_fresh && s == (const void*)g_arr0, "memcpy(new array, old array, rowSize counters)");
  cf_col = c0_col; cf_w = c0_w; return d; }
/* raw indexing of a row array: the cell map */
uint64_t* VERIF_idx_hook(uint64_t* base, uint64_t i) { __CPROVER_assert(base != 0 && i <= g_RS, "C20: a row array is indexed within its rowSize + 1 words");
  if (base == g_arr0) return &A0(i) == &c0_w && i != g_wc ? (c_scratch = nondet_u64(), &c_scratch) : &A0(i);
  if (base == g_fresh) return &AF(i) == &cf_w && i != g_wc ? (c_scratch = nondet_u64(), &c_scratch) : &AF(i);
  __CPROVER_assert(base == g_scratch_arr, "a known row array"); c_scratch = nondet_u64(); return &c_scratch; }
uint64_t VERIF_urem_hook(uint64_t a, uint64_t b) { __CPROVER_assert(a == g_index && b == g_RS, "index % rowSize_"); return g_col; }
uint64_t VERIF_udiv_hook(uint64_t a, uint64_t b) { __CPROVER_assert(a == g_index && b == g_RS, "index / rowSize_"); return g_rowIndex; }
/* iteration over the rows: the witness row is handed out exactly once, every other row is an untracked scratch row */
ROW* ROWS_BEGIN(RVEC* v) { seenr = 0; return TOK(ROW*); }
ROW* ROWS_END(RVEC* v) { return (ROW*)0; }
_Bool RIT_NE(RIT* a, RIT* b) { return a->f0 != b->f0; }
ROW* RIT_DEREF(RIT* it) { __CPROVER_assert(it->f0 != 0, "no dereference of the end iterator");
  curr = nondet_bool() && !seenr; if (curr) { seenr = 1; return g_row; }
  g_scratch_row->f0 = nondet_u64(); g_scratch_row->f1 = nondet_bool() ? g_scratch_arr : (uint64_t*)0; return g_scratch_row; }
RIT* RIT_INC(RIT* it) { it->f0 = MAYBE(ROW*); __CPROVER_assume(it->f0 != 0 || seenr); return it; }
void ROWS_DTOR(RVEC* v) { }
static uint64_t *f_states, *f_rs;
static void setup(void) {
  g_sc = malloc(sizeof *g_sc); g_row = malloc(sizeof *g_row); g_scratch_row = malloc(sizeof *g_scratch_row); f_states = malloc(8); f_rs = malloc(8); __CPROVER_assume(g_sc && g_row && g_scratch_row && f_states && f_rs);
  g_sc->f0 = malloc(1); g_sc->f1 = f_states; g_sc->f3 = f_rs; g_sc->f4 = malloc(1);
  g_RS = *f_rs; __CPROVER_assume(g_RS >= 1 && g_RS < UINT64_MAX);
  __CPROVER_assume(g_col < g_RS && g_wc < g_RS);
  g_fresh = malloc(1); g_scratch_arr = malloc(1); __CPROVER_assume(g_fresh && g_scratch_arr);   /* arrays are tokens: never dereferenced directly */
  _Bool has = nondet_bool(); uint64_t* arr = malloc(1); __CPROVER_assume(arr != 0); g_row->f1 = has ? arr : 0; g_arr0 = g_row->f1; g_master0 = g_row->f0;
  g_cnt0 = A0(g_col); g_rc0 = A0(g_RS); g_wcnt0 = A0(g_wc);
  g_reclaims = 0; g_allocs = 0; g_w_reclaimed = 0; seenr = 0; }
void h_DECR(void) { setup(); uint64_t label, state; DECR(g_sc, label, state); CANARY("h_DECR"); }
void h_SET(void) { setup(); uint64_t label, state, count; SET(g_sc, label, state, count); CANARY("h_SET"); }
void h_INIT(void) { setup(); INIT(g_sc); CANARY("h_INIT"); }
void h_DTOR(void) { setup(); DTOR(g_sc); CANARY("h_DTOR"); }
