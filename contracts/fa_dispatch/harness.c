_Bool nondet_bool(void); uint64_t nondet_u64(void);
/* ---- automaton objects: constructor / assignment / destructor move the ghost tag like the content ---- */
void FA_CTOR(FA* x, void* alphabet) { TAG(x) = T_EMPTY; }
FA* FA_ASSIGN(FA* x, FA* y) { TAG(x) = TAG(y); return x; }
void FA_DTOR(FA* x) { }
/* ---- preparation: requires copies of the two operands, makes them disjoint and dense, returns the number of states ---- */
uint64_t SANITIZE(FA* a, FA* b) {
  __CPROVER_assert(TAG(a) == T_RAW_S && TAG(b) == T_RAW_B && a != b, "C09 dispatch: SanitizeAutsForInclusion is given private copies of (smaller, bigger)");
  TAG(a) = T_PREP_S; TAG(b) = T_PREP_B; uint64_t n = nondet_u64(); __CPROVER_assume(n != UINT64_MAX); g_states = n; return n; }
/* ---- union: only for operands whose state sets are known to be disjoint (its own assert); result numbered like the operands ---- */
void UDS(FA* ret, FA* x, FA* y) {
  __CPROVER_assert(TAG(x) == T_PREP_S && TAG(y) == T_PREP_B, "C09 dispatch: UnionDisjointStates is applied to the prepared (disjointly, densely numbered) operands");
  TAG(ret) = T_UNION_PREP; }
/* ---- the algorithms ---- */
static _Bool run(uint64_t algo) { g_runs++; g_algo = algo; g_verdict = nondet_bool(); return g_verdict; }
#define PRE_ANTICHAIN(s,b,r) __CPROVER_assert(TAG(s) == T_PREP_S && TAG(b) == T_PREP_B && (r)->f0 == g_states, "C09 dispatch: the antichain algorithm is started on the prepared operands with the identity over their state count")
#define PRE_CONGR(s,b,r)     __CPROVER_assert(TAG(s) == T_UNION_PREP && TAG(b) == T_PREP_B && (r)->f0 == g_states, "C09 dispatch: the congruence algorithm is started on (prepared A u B, prepared B) with the identity over their state count")
#define PRE_SIM(s,b,r)       __CPROVER_assert(TAG(s) == T_RAW_S && TAG(b) == T_RAW_B && (void*)(r) == g_sim, "C09 dispatch: with a caller-supplied simulation the operands are passed through with that relation")
_Bool CHK_I_AC(FA* s, FA* b, IDREL* r)  { PRE_ANTICHAIN(s, b, r); return run(0); }
_Bool CHK_S_AC(FA* s, FA* b, SIMREL* r) { PRE_SIM(s, b, r);       return run(16); }
_Bool CHK_I_CB(FA* s, FA* b, IDREL* r)  { PRE_CONGR(s, b, r);     return run(33); }
_Bool CHK_I_CD(FA* s, FA* b, IDREL* r)  { PRE_CONGR(s, b, r);     return run(1); }
_Bool CHK_S_CD(FA* s, FA* b, SIMREL* r) { PRE_SIM(s, b, r);       return run(17); }
_Bool CHK_I_ED(FA* s, FA* b, IDREL* r)  { PRE_CONGR(s, b, r);     return run(65); }
_Bool CHK_I_EB(FA* s, FA* b, IDREL* r)  { PRE_CONGR(s, b, r);     return run(97); }
void h_CHECK_INCL(void) {
  FA *s = malloc(sizeof *s), *b = malloc(sizeof *b); IP* p = malloc(sizeof *p); __CPROVER_assume(s && b && p);
  TAG(s) = T_RAW_S; TAG(b) = T_RAW_B; g_runs = 0; g_sim = (void*)p->f1;
  /* the flag word is consistent: GetUseSimulation / GetAlgorithm read bits of the same word GetOptions returns */
  CHECK_INCL(s, b, p);
  __CPROVER_assert(0, "canary: h_CHECK_INCL reaches the end (must FAIL)");
}
/* helpers on the path that only builds the message of the NotImplementedException (the throw itself ends the execution) */
void IP_TOSTRING(void* ret, IP* p) { }
void STR_PLUS(void* ret, void* a, void* b) { }
void NIE_CTOR(void* e, void* msg) { }
void STR_DTOR(void* s) { }
void CXA_FREE(void* e) { }
