/* Unit fa_dispatch (DESIGN.md 5-C09): ExplicitFiniteAutCore::CheckInclusion(smaller, bigger, params) -- the anchored mechanism
   "bisimulation up to congruence on the union automaton (A u B versus B)" and the parameter dispatch.
   Every automaton object carries a GHOST TAG (kept in its first word) saying what it is:                                         */
#define TAG(x)        (*(uint64_t*)(x))
#define T_EMPTY       0   /* default constructed                                              */
#define T_RAW_S       1   /* (a copy of) the caller's smaller operand                         */
#define T_RAW_B       2   /* (a copy of) the caller's bigger operand                          */
#define T_PREP_S      3   /* smaller operand as prepared by SanitizeAutsForInclusion          */
#define T_PREP_B      4   /* bigger operand as prepared by SanitizeAutsForInclusion (disjoint from T_PREP_S, both dense below `states`) */
#define T_UNION_PREP  5   /* UnionDisjointStates(T_PREP_S, T_PREP_B)                          */
uint64_t g_states;        /* the state count returned by SanitizeAutsForInclusion */
uint64_t g_runs, g_algo; _Bool g_verdict; void* g_sim;
/* algorithm identifiers = the option word that selects them */
#define CONTRACT_CHECK_INCL \
  __CPROVER_requires(TAG(v_smaller) == T_RAW_S && TAG(v_bigger) == T_RAW_B && v_smaller != v_bigger && g_runs == 0 && g_sim == (void*)v_params->f1) \
  __CPROVER_assigns(g_states, g_runs, g_algo, g_verdict) \
  /* exactly one algorithm is run, the one the options select, and its verdict is returned unchanged */ \
  __CPROVER_ensures(g_runs == 1 && g_algo == v_params->f0 && __CPROVER_return_value == g_verdict) \
  /* the operands are left alone */ \
  __CPROVER_ensures(TAG(v_smaller) == T_RAW_S && TAG(v_bigger) == T_RAW_B)
