#define CANARY(n) __CPROVER_assert(0, "canary: " n " reaches the end (must FAIL)")
_Bool nondet_bool(void); uint64_t nondet_u64(void);
uint64_t __CPROVER_uninterpreted_HCOMB(uint64_t seed, uint64_t what, uint64_t v);
void HC_VEC(uint64_t* seed, void* vec) { __CPROVER_assert(vec == (void*)&g_a->f0, "the sibling vector of the environment hashed"); g_hc_children = 1; *seed = __CPROVER_uninterpreted_HCOMB(*seed, 0, 0); g_seed = *seed; }
void HC_UL(uint64_t* seed, uint64_t* v) { __CPROVER_assert(v == &g_a->f1 || v == &g_a->f2 || v == &g_a->f3, "a scalar member of the environment hashed");
  if (v == &g_a->f1) g_hc_index = 1; if (v == &g_a->f2) g_hc_symbol = 1; if (v == &g_a->f3) g_hc_state = 1; *seed = __CPROVER_uninterpreted_HCOMB(*seed, 1, *v); g_seed = *seed; }
uint64_t VEC_SIZE(void* v) { __CPROVER_assert(v == (void*)&g_a->f0 || v == (void*)&g_b->f0, "size of a sibling vector"); return g_n; }
_Bool VEC_EQ(void* x, void* y) { __CPROVER_assert((x == (void*)&g_a->f0 && y == (void*)&g_b->f0) || (x == (void*)&g_b->f0 && y == (void*)&g_a->f0), "the two sibling vectors are compared"); return g_veq; }
static void mk(void) { g_a = malloc(sizeof *g_a); g_b = malloc(sizeof *g_b); g_hasher = malloc(1); __CPROVER_assume(g_a && g_b && g_hasher); }
void h_KEY(void) { mk(); g_veq = 1; __CPROVER_assume(g_a->f1 == g_b->f1 && g_a->f2 == g_b->f2 && g_a->f3 != g_b->f3);      /* the two environments differ only in the recorded parent */
  g_eq = KEYEQ(g_a, g_b);
  g_hc_children = g_hc_index = g_hc_symbol = g_hc_state = 0;
  uint64_t h = HASH(g_hasher, g_a); CANARY("h_KEY"); }
void h_KEYEQ(void) { mk(); _Bool r = KEYEQ(g_a, g_b); CANARY("h_KEYEQ"); }
