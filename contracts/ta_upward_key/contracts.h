/* Unit ta_upward_key (DESIGN.md 5-C04, 11): identity of an environment node of the upward encoding.  envMap is an unordered_map keyed by Env with
   env_hash / Env::operator==; TranslateUpward needs two environments that differ in ANY of (siblings, position, symbol, recorded parent) to be
   different nodes (an environment stands for ONE rule with a hole: its single outgoing edge leads to that rule's parent).
     KEYEQ:  a == b  ==>  same number of siblings, same position, same symbol, equal sibling vectors
     KEY  :  if operator== cannot tell apart two environments that differ ONLY in the recorded parent (g_eq: measured by running the real
             operator== on such a pair), then the hash code combines state_ -- so that libstdc++'s cached hash code separates them;
             the value returned is the seed after the combines. */
ENV *g_a, *g_b; void* g_hasher; uint64_t g_n; _Bool g_eq, g_veq, g_hc_children, g_hc_index, g_hc_symbol, g_hc_state; uint64_t g_seed;
#define CONTRACT_HASH \
  __CPROVER_requires(v_env == g_a && !g_hc_children && !g_hc_index && !g_hc_symbol && !g_hc_state) \
  __CPROVER_assigns(g_hc_children, g_hc_index, g_hc_symbol, g_hc_state, g_seed) \
  __CPROVER_ensures(g_eq ==> g_hc_state) \
  __CPROVER_ensures(__CPROVER_return_value == g_seed)
#define CONTRACT_KEYEQ \
  __CPROVER_requires(v_this == g_a && v_rhs == g_b) \
  __CPROVER_assigns() \
  __CPROVER_ensures(__CPROVER_return_value ==> (g_a->f1 == g_b->f1 && g_a->f2 == g_b->f2 && g_veq))
