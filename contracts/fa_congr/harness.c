#define CANARY(n) __CPROVER_assert(0, "canary: " n " reaches the end (must FAIL)")
#define TOK ((void*)(uintptr_t)8)
#define MAYBE (nondet_bool() ? TOK : (void*)0)
#define TOKF ((void*)(uintptr_t)16)
#define TOKS ((void*)(uintptr_t)24)
_Bool nondet_bool(void); uint64_t nondet_u64(void);
/* ---- the relation and the used-rule numbers ---- */
uint64_t REL_SIZE(void* r) { __CPROVER_assert(r == g_rel, "size of the relation passed in"); __CPROVER_assert(g_st == 0, "C09: a matched rule is applied completely (both sides added, recorded, marked used, checked) before the next rule is looked at"); g_count_done = 0; g_match_done = 0; g_cond_contains = 0; return g_n; }
void* REL_AT(void* r, uint64_t i) { __CPROVER_assert(r == g_rel && i < g_n, "C20: the relation is indexed below its size"); g_i = i; cell_rule.f0 = TOKF; cell_rule.f1 = TOKS; return &cell_rule; }   /* TOKF / TOKS: first / second of rule g_i */
uint64_t UN_COUNT(void* s, uint32_t* i) { __CPROVER_assert(s == g_used, "the used-rule numbers passed in"); g_i = *i; g_count_done = 1; return nondet_bool() ? 1 : 0; }
#ifdef STUB_MATCH
_Bool MATCH(void* self, void* clo, void* rule) { __CPROVER_assert(self == (void*)g_this && clo == g_set && rule == TOKS && g_count_done && g_st == 0, "C09: the set under closure is matched against the SECOND component of an unused rule");
  _Bool m = nondet_bool(); g_match_done = 1; if (m) g_st = 1; return m; }
#endif
_Bool USED_CONTAINS(void* m, void* k, void* v) { __CPROVER_assert(g_visited_mode && m == (void*)&g_this->f11 && k == g_orig && v == TOKS && g_count_done && g_st == 0, "C09: the recorded rules are looked up under the set WHOSE closure is computed");
  _Bool c = nondet_bool(); if (c) { g_st = 1; g_cond_contains = 1; } return c; }
void ADDSUB(void* self, void* main, void* sub) { __CPROVER_assert(self == (void*)g_this && main == g_set && ((g_st == 1 && sub == TOKF) || (g_st == 2 && sub == TOKS)), "C09: both sides of the matched rule are added to the set under closure (first, then second)"); g_st++; }
void USED_ADD(void* m, void* k, void* v) { __CPROVER_assert(!g_visited_mode && m == (void*)&g_this->f11 && g_st == 3, "the applied rule is recorded after both sides were added");
  __CPROVER_assert(k == g_orig && v == TOKS, "C09: the applied rule is recorded under the set WHOSE closure is being computed (key origSet, value the rule's second component)"); g_st = 4; }
UN_INSRET UN_INSERT(void* s, uint32_t* i) { __CPROVER_assert(s == g_used && *i == g_i && g_st == (g_visited_mode ? 3 : 4), "C09: the applied rule's number is marked used"); g_st = 5; g_any = 1; UN_INSRET r; r.f1 = nondet_bool(); return r; }
_Bool MANIP(void* clo, void* set) { __CPROVER_assert(clo == g_manip && set == g_set && g_st == 5 && *g_applied == 1, "C09: after a rule was applied (and `applied` set) the pair is checked on the fly on the set under closure");
  _Bool ok = nondet_bool(); g_st = 0; if (!ok) g_manip_false = 1; return ok; }
/* ---- MatchPair ---- */
uint64_t __CPROVER_uninterpreted_INCLO(uint64_t s);
uint64_t SET_SIZE(void* s) { __CPROVER_assert(s == g_clo || s == g_rule, "size of one of the two sets"); return s == g_clo ? g_szc : g_szr; }
uint64_t SET_COUNT(void* s, uint64_t* x) { __CPROVER_assert(s == g_clo && *x == cell_e, "membership of the element under the cursor in the closure"); _Bool in = __CPROVER_uninterpreted_INCLO(*x) != 0; if (!in) g_fail = 1; return in ? 1 : 0; }
void* CUSET_BEGIN(void* s) { __CPROVER_assert(s == g_rule, "traversal of the rule"); seen_e = 0; cur_e = 0; return has_e ? TOK : MAYBE; }
void* CUSET_END(void* s) { return (void*)0; }
uint64_t* CUSI_DEREF(void* it_) { CUSI* it = (CUSI*)it_; __CPROVER_assert(it->f0.f0 != 0, "no dereference of an end iterator"); cur_e = has_e && nondet_bool() && !seen_e; if (cur_e) seen_e = 1;
  cell_e = nondet_u64(); if (cur_e) cell_e = we; else __CPROVER_assume(!has_e || cell_e != we); return &cell_e; }
void* CUSI_INC(void* it_) { CUSI* it = (CUSI*)it_; it->f0.f0 = MAYBE; __CPROVER_assume(it->f0.f0 != 0 || !has_e || seen_e); return it; }
static void mk(void) { g_this = malloc(sizeof *g_this); g_orig = malloc(8); g_set = malloc(8); g_rel = malloc(8); g_manip = malloc(8); g_used = malloc(8); g_applied = malloc(1);
  __CPROVER_assume(g_this && g_orig && g_set && g_rel && g_manip && g_used && g_applied && g_orig != g_set); g_st = 0; g_any = 0; g_manip_false = 0; }
void h_APPLY(void) { mk(); g_visited_mode = 0; _Bool r = APPLY(g_this, g_orig, g_set, g_rel, g_manip, g_used, g_applied); CANARY("h_APPLY"); }
void h_APPLYV(void) { mk(); g_visited_mode = 1; _Bool r = APPLYV(g_this, g_orig, g_set, g_rel, g_manip, g_used, g_applied); CANARY("h_APPLYV"); }
void h_MATCH(void) { g_this = malloc(sizeof *g_this); g_clo = malloc(8); g_rule = malloc(8); __CPROVER_assume(g_this && g_clo && g_rule); g_fail = 0; g_in_w = __CPROVER_uninterpreted_INCLO(we) != 0;
  _Bool r = MATCH(g_this, g_clo, g_rule); CANARY("h_MATCH"); }
