/* Unit fa_congr (DESIGN.md 5-C09, 11): one step of the congruence closure of a macro-state (ExplicitFACongrFunctorCacheOpt, breadth-first).
   MatchPair(closure, rule):  true  ==> an ARBITRARY witness element we of `rule` (in it iff has_e) is in `closure`;
                              false ==> `rule` is larger than `closure` or some element of `rule` was found missing.
   ApplyRulesForRelation(origSet, set, relation, manip, used, applied) -- for every rule i of `relation` that is not yet used and matches `set`:
       both sides are added to `set` (first, then second), the rule is recorded as usedRules_.add(&origSet, relation[i].second) -- under the set
       WHOSE closure is being computed --, i is marked used, `applied` is set, and the pair is checked on the fly (manip(set)); the function
       returns true exactly when that check failed; a matched rule is applied completely before the next one is looked at.
   ApplyRulesForRelationVisited: the same with "recorded for origSet or matches" as the condition and without recording. */
FCT* g_this; void *g_orig, *g_set, *g_rel, *g_manip, *g_used; uint8_t* g_applied; uint64_t g_n;
RPAIR cell_rule; uint64_t g_i; uint64_t g_st; _Bool g_visited_mode, g_cond_contains, g_any, g_manip_false, g_count_done, g_match_done;
uint64_t we; _Bool has_e, g_fail, seen_e, cur_e, g_in_w; uint64_t cell_e, g_szc, g_szr; void *g_clo, *g_rule;
#define G_RULES cell_rule, g_i, g_st, g_cond_contains, g_any, g_manip_false, g_count_done, g_match_done, *g_applied
#define APPLY_CONTRACT \
  __CPROVER_requires(v_this == g_this && v_origSet == g_orig && v_set == g_set && v_relation == g_rel && v_congrMapManipulator == g_manip && v_usedRulesNumbers == g_used && v_appliedRule == g_applied) \
  __CPROVER_requires(g_st == 0 && !g_any && !g_manip_false) \
  __CPROVER_assigns(G_RULES) \
  __CPROVER_ensures(g_st == 0 && (!__CPROVER_return_value == !g_manip_false) && (g_any ==> *g_applied == 1))
#define CONTRACT_APPLY  APPLY_CONTRACT
#define CONTRACT_APPLYV APPLY_CONTRACT
#define LOOPASG_APPLY__L_RULES , G_RULES
#define LOOP_APPLY__L_RULES  __CPROVER_loop_invariant(g_st == 0 && !g_manip_false && (g_any ==> *g_applied == 1))
#define LOOPASG_APPLYV__L_RULES , G_RULES
#define LOOP_APPLYV__L_RULES __CPROVER_loop_invariant(g_st == 0 && !g_manip_false && (g_any ==> *g_applied == 1))
#define CONTRACT_MATCH \
  __CPROVER_requires(v_closure == g_clo && v_rule == g_rule && !g_fail) \
  __CPROVER_assigns(g_fail, seen_e, cur_e, cell_e) \
  __CPROVER_ensures(__CPROVER_return_value ==> (g_szr <= g_szc && (has_e ==> g_in_w))) \
  __CPROVER_ensures(!__CPROVER_return_value ==> (g_szr > g_szc || g_fail))
#define LOOPASG_MATCH__L_ELEMS , g_fail, seen_e, cur_e, cell_e
#define LOOP_MATCH__L_ELEMS \
  __CPROVER_loop_invariant(END_MATCH__L_ELEMS.f0.f0 == 0 && !g_fail && g_szr <= g_szc) \
  __CPROVER_loop_invariant((has_e && BEGIN_MATCH__L_ELEMS.f0.f0 == 0) ==> seen_e) \
  __CPROVER_loop_invariant((has_e && seen_e) ==> g_in_w)
