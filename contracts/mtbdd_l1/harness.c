/* harnesses of unit mtbdd_l1: every function is called once on an arbitrary node in fresh memory */
M_MK_NODE_DEF
#define CANARY(n) __CPROVER_assert(0, "canary: " n " reaches the end (must FAIL)")
void h_CLASSIFY2(void) { NP a, b; a.f0 = mk_node(); b.f0 = mk_node(); _Bool same; if (same) b = a; CLASSIFY2(&a, &b); CANARY("h_CLASSIFY2"); }
void h_CLASSIFY3(void) { uint64_t a = mk_node(), b = mk_node(), c = mk_node(); _Bool s1, s2; if (s1) b = a; if (s2) c = b; CLASSIFY3(a, b, c); CANARY("h_CLASSIFY3"); }
#define H_PTR(F) void h_##F(void) { NP a; a.f0 = mk_node(); F(&a); CANARY("h_" #F); }
#define H_VAL(F) void h_##F(void) { uint64_t a = mk_node(); g_rc0 = *RCP(a); F(a); CANARY("h_" #F); }
H_PTR(IS_LEAF) H_PTR(IS_INTERNAL) H_PTR(N2L) H_PTR(N2L_C) H_PTR(N2I) H_PTR(N2I_C)
H_PTR(GET_VAR) H_PTR(GET_VAR_C) H_PTR(GET_LOW) H_PTR(GET_LOW_C) H_PTR(GET_HIGH) H_PTR(GET_HIGH_C) H_PTR(GET_DATA)
H_VAL(GET_LEAF_RC) H_VAL(INC_RC) H_VAL(DEC_LEAF_RC) H_VAL(DEC_INT_RC) H_VAL(DEL_LEAF) H_VAL(DEL_INT)
void h_IS_NULL(void) { uint64_t a; IS_NULL(a); CANARY("h_IS_NULL"); }
void h_MK_LEAF(void) { LF* l = malloc(sizeof *l); MK_LEAF(l); CANARY("h_MK_LEAF"); }
void h_MK_INT(void) { IN* n = malloc(sizeof *n); MK_INT(n); CANARY("h_MK_INT"); }
void h_NP_EQ(void) { NP a, b; NP_EQ(&a, &b); CANARY("h_NP_EQ"); }
void h_CREATE_LEAF(void) { uint32_t d; uint64_t w = mk_node(); g_wit = M_IS_LEAF(w) ? (void*)M_LEAF(w) : (void*)M_INT(w); CREATE_LEAF(&d); CANARY("h_CREATE_LEAF"); }
void h_CREATE_INT(void) { uint64_t l = mk_node(), h = mk_node(), v; _Bool s; if (s) h = l; CREATE_INT(l, h, &v); CANARY("h_CREATE_INT"); }
