M_MK_NODE_DEF
#ifdef HARNESS_h_classifyCase2
void h_classifyCase2(void) {
  NP a, b; a.f0 = mk_node(); b.f0 = mk_node();
  _Bool same; if (same) b = a;
  uint8_t r = _ZN4VATA8MTBDDPkg13classifyCase2INS0_12MTBDDNodePtrIjEES3_EEcRKT_RKT0_(&a, &b);
  __CPROVER_assert(0, "canary: h_classifyCase2 reaches the end (must FAIL)");
}
#endif
