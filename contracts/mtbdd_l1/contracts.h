/* Layer 1 of the MTBDD contracts (DESIGN.md 3.1 / 5-C17 / 5-C18): tag algebra, accessors,
   constructors and reference-count primitives of src/mtbdd/mtbdd_node.hh and the case split of
   classify_case.hh / apply3func.hh, against CONCRETE MEMORY: a node is a freshly allocated
   InternalNode / LeafNode object with unconstrained fields, reached through the tagged word. */
#include "common/mtbdd_mem.h"
/* entry-value ghosts (bound by a requires; __CPROVER_old mis-snapshots through tag-dependent casts) */
uint64_t g_rc0; void* g_wit;   /* witness: an arbitrary object that exists before the call */
#define RCP(a) (M_IS_LEAF(a) ? &M_LRC(a) : &M_IRC(a))

#define INT_GE(a,b) (M_IS_LEAF(b) || M_VAR(a) >= M_VAR(b))

#define CONTRACT_CLASSIFY2 \
 __CPROVER_requires(v_node1->f0 != 0 && v_node2->f0 != 0) \
 __CPROVER_assigns() \
 __CPROVER_ensures((__CPROVER_return_value & ~3) == 0) \
 /* bit k set <=> node k is internal and its variable is the maximum over the internal operands */ \
 __CPROVER_ensures(((__CPROVER_return_value & 1) != 0) == (M_IS_INT(v_node1->f0) && INT_GE(v_node1->f0, v_node2->f0))) \
 __CPROVER_ensures(((__CPROVER_return_value & 2) != 0) == (M_IS_INT(v_node2->f0) && INT_GE(v_node2->f0, v_node1->f0))) \
 /* derived: terminal case iff both leaves; both branched only for equal variables */ \
 __CPROVER_ensures((__CPROVER_return_value == 0) == (M_IS_LEAF(v_node1->f0) && M_IS_LEAF(v_node2->f0))) \
 __CPROVER_ensures((__CPROVER_return_value == 3) ==> (M_VAR(v_node1->f0) == M_VAR(v_node2->f0)))

#define CONTRACT_CLASSIFY3 \
 __CPROVER_requires(v_node1_coerce != 0 && v_node2_coerce != 0 && v_node3_coerce != 0) \
 __CPROVER_assigns() \
 __CPROVER_ensures((__CPROVER_return_value & ~7) == 0) \
 __CPROVER_ensures(((__CPROVER_return_value & 1) != 0) == (M_IS_INT(v_node1_coerce) && INT_GE(v_node1_coerce, v_node2_coerce) && INT_GE(v_node1_coerce, v_node3_coerce))) \
 __CPROVER_ensures(((__CPROVER_return_value & 2) != 0) == (M_IS_INT(v_node2_coerce) && INT_GE(v_node2_coerce, v_node1_coerce) && INT_GE(v_node2_coerce, v_node3_coerce))) \
 __CPROVER_ensures(((__CPROVER_return_value & 4) != 0) == (M_IS_INT(v_node3_coerce) && INT_GE(v_node3_coerce, v_node1_coerce) && INT_GE(v_node3_coerce, v_node2_coerce))) \
 __CPROVER_ensures((__CPROVER_return_value == 0) == (M_IS_LEAF(v_node1_coerce) && M_IS_LEAF(v_node2_coerce) && M_IS_LEAF(v_node3_coerce)))

/* ---- tag algebra ---- */
#define CONTRACT_IS_LEAF     __CPROVER_requires(v_node->f0 != 0) __CPROVER_assigns() __CPROVER_ensures(__CPROVER_return_value == M_IS_LEAF(v_node->f0))
#define CONTRACT_IS_INTERNAL __CPROVER_requires(v_node->f0 != 0) __CPROVER_assigns() __CPROVER_ensures(__CPROVER_return_value == M_IS_INT(v_node->f0))
#define CONTRACT_IS_NULL     __CPROVER_assigns() __CPROVER_ensures(__CPROVER_return_value == (v_node_coerce == 0))
#define CONTRACT_N2L   __CPROVER_requires(v_node->f0 != 0 && M_IS_LEAF(v_node->f0)) __CPROVER_assigns() __CPROVER_ensures(__CPROVER_return_value == M_LEAF(v_node->f0) && ((uint64_t)__CPROVER_return_value | 1) == v_node->f0)
#define CONTRACT_N2L_C CONTRACT_N2L
#define CONTRACT_N2I   __CPROVER_requires(v_node->f0 != 0 && M_IS_INT(v_node->f0)) __CPROVER_assigns() __CPROVER_ensures(__CPROVER_return_value == M_INT(v_node->f0))
#define CONTRACT_N2I_C CONTRACT_N2I
#define CONTRACT_MK_LEAF __CPROVER_requires(v_node != 0 && ((uint64_t)v_node & 1) == 0) __CPROVER_assigns() \
  __CPROVER_ensures(__CPROVER_return_value != 0 && M_IS_LEAF(__CPROVER_return_value) && M_LEAF(__CPROVER_return_value) == v_node)
#define CONTRACT_MK_INT  __CPROVER_requires(v_node != 0 && ((uint64_t)v_node & 1) == 0) __CPROVER_assigns() \
  __CPROVER_ensures(__CPROVER_return_value != 0 && M_IS_INT(__CPROVER_return_value) && M_INT(__CPROVER_return_value) == v_node)
#define CONTRACT_NP_EQ __CPROVER_assigns() __CPROVER_ensures(__CPROVER_return_value == (v_this->f0 == v_rhs->f0))

/* ---- accessors: the result is the field of the untagged object; nothing is written ---- */
#define REQ_INT(p)  __CPROVER_requires((p)->f0 != 0 && M_IS_INT((p)->f0))
#define CONTRACT_GET_VAR    REQ_INT(v_node) __CPROVER_assigns() __CPROVER_ensures(__CPROVER_return_value == &M_VAR(v_node->f0))
#define CONTRACT_GET_VAR_C  CONTRACT_GET_VAR
#define CONTRACT_GET_LOW    REQ_INT(v_node) __CPROVER_assigns() __CPROVER_ensures(__CPROVER_return_value == M_LOW(v_node->f0))
#define CONTRACT_GET_LOW_C  CONTRACT_GET_LOW
#define CONTRACT_GET_HIGH   REQ_INT(v_node) __CPROVER_assigns() __CPROVER_ensures(__CPROVER_return_value == M_HIGH(v_node->f0))
#define CONTRACT_GET_HIGH_C CONTRACT_GET_HIGH
#define CONTRACT_GET_DATA   __CPROVER_requires(v_node->f0 != 0 && M_IS_LEAF(v_node->f0)) __CPROVER_assigns() __CPROVER_ensures(__CPROVER_return_value == &M_DATA(v_node->f0))
#define CONTRACT_GET_LEAF_RC __CPROVER_requires(v_node_coerce != 0 && M_IS_LEAF(v_node_coerce)) __CPROVER_assigns() __CPROVER_ensures(__CPROVER_return_value == &M_LRC(v_node_coerce))

/* ---- constructors: a fresh object carrying exactly the arguments, reference count 0; nothing else written ---- */
#define CONTRACT_CREATE_LEAF \
  __CPROVER_assigns() \
  __CPROVER_ensures(__CPROVER_return_value != 0 && M_IS_LEAF(__CPROVER_return_value)) \
  /* a new, valid object: distinct from the arbitrary pre-existing witness object (is_fresh cannot take the untagging expression) */ \
  __CPROVER_ensures(__CPROVER_rw_ok(M_LEAF(__CPROVER_return_value), sizeof(LF)) && !__CPROVER_same_object(M_LEAF(__CPROVER_return_value), g_wit)) \
  __CPROVER_ensures(M_DATA(__CPROVER_return_value) == *v_data && M_LRC(__CPROVER_return_value) == 0)
#define CONTRACT_CREATE_INT \
  __CPROVER_requires(v_low_coerce != 0 && v_high_coerce != 0) \
  __CPROVER_assigns() \
  __CPROVER_ensures(__CPROVER_return_value != 0 && M_IS_INT(__CPROVER_return_value)) \
  __CPROVER_ensures(__CPROVER_is_fresh(M_INT(__CPROVER_return_value), sizeof(IN))) \
  __CPROVER_ensures(M_LOW(__CPROVER_return_value) == v_low_coerce && M_HIGH(__CPROVER_return_value) == v_high_coerce && M_VAR(__CPROVER_return_value) == *v_var && M_IRC(__CPROVER_return_value) == 0)

/* ---- reference-count primitives: exactly +-1 on the counter of the tagged object, frame = that counter ---- */
#define CONTRACT_INC_RC \
  __CPROVER_requires(v_node_coerce != 0 && g_rc0 == *RCP(v_node_coerce) && g_rc0 < UINT64_MAX) \
  __CPROVER_assigns(M_IS_LEAF(v_node_coerce): M_LRC(v_node_coerce); M_IS_INT(v_node_coerce): M_IRC(v_node_coerce)) \
  __CPROVER_ensures(*RCP(v_node_coerce) == g_rc0 + 1)
#define CONTRACT_DEC_LEAF_RC \
  __CPROVER_requires(v_node_coerce != 0 && M_IS_LEAF(v_node_coerce) && g_rc0 == M_LRC(v_node_coerce) && g_rc0 >= 1) \
  __CPROVER_assigns(M_LRC(v_node_coerce)) \
  __CPROVER_ensures(M_LRC(v_node_coerce) == g_rc0 - 1 && __CPROVER_return_value == &M_LRC(v_node_coerce))
#define CONTRACT_DEC_INT_RC \
  __CPROVER_requires(v_node_coerce != 0 && M_IS_INT(v_node_coerce) && g_rc0 == M_IRC(v_node_coerce) && g_rc0 >= 1) \
  __CPROVER_assigns(M_IRC(v_node_coerce)) \
  __CPROVER_ensures(M_IRC(v_node_coerce) == g_rc0 - 1 && __CPROVER_return_value == &M_IRC(v_node_coerce))

/* ---- deallocation: exactly the untagged object is freed ---- */
#define CONTRACT_DEL_LEAF \
  __CPROVER_requires(v_node_coerce != 0 && M_IS_LEAF(v_node_coerce)) \
  __CPROVER_assigns() __CPROVER_frees(M_LEAF(v_node_coerce)) \
  __CPROVER_ensures(__CPROVER_was_freed(M_LEAF(v_node_coerce)))
#define CONTRACT_DEL_INT \
  __CPROVER_requires(v_node_coerce != 0 && M_IS_INT(v_node_coerce)) \
  __CPROVER_assigns() __CPROVER_frees(M_INT(v_node_coerce)) \
  __CPROVER_ensures(__CPROVER_was_freed(M_INT(v_node_coerce)))
