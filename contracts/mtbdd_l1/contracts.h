#include "common/mtbdd_mem.h"
#define CONTRACT__ZN4VATA8MTBDDPkg13classifyCase2INS0_12MTBDDNodePtrIjEES3_EEcRKT_RKT0_ \
 __CPROVER_requires(v_node1->f0 != 0 && v_node2->f0 != 0) \
 __CPROVER_assigns() \
 __CPROVER_ensures((__CPROVER_return_value & ~3) == 0) \
 /* bit k set <=> node k is internal and its variable is the maximum over the internal operands */ \
 __CPROVER_ensures(((__CPROVER_return_value & 1) != 0) == (M_IS_INT(v_node1->f0) && (M_IS_LEAF(v_node2->f0) || M_VAR(v_node1->f0) >= M_VAR(v_node2->f0)))) \
 __CPROVER_ensures(((__CPROVER_return_value & 2) != 0) == (M_IS_INT(v_node2->f0) && (M_IS_LEAF(v_node1->f0) || M_VAR(v_node2->f0) >= M_VAR(v_node1->f0)))) \
 /* derived: terminal case iff both leaves; both branched only for equal variables */ \
 __CPROVER_ensures((__CPROVER_return_value == 0) == (M_IS_LEAF(v_node1->f0) && M_IS_LEAF(v_node2->f0))) \
 __CPROVER_ensures((__CPROVER_return_value == 3) ==> (M_VAR(v_node1->f0) == M_VAR(v_node2->f0)))
