#define CANARY(n) __CPROVER_assert(0, "canary: " n " reaches the end (must FAIL)")
_Bool nondet_bool(void);
void UMAP_CTOR(void* m) { if (g_umaps == 0) g_lm1 = m; else g_lm2 = m; g_umaps++; } void UMAP_DTOR(void* m) { } void FUNC_DTOR(void* f) { } void TW_DTOR(void* t) { }
static void func_ctor(void* f, void* closure) { void* cnt = ((void**)closure)[0]; __CPROVER_assert(*(uint64_t*)cnt == 0, "C10: the shared counter starts at 0 and is untouched before the re-indexing");
  if (g_funcs == 0) { g_f1 = f; g_cnt1 = cnt; } else { g_f2 = f; g_cnt2 = cnt; } g_funcs++; }
void FUNC_CTOR(void* f, void* closure) { func_ctor(f, closure); }
void FUNC_CTOR1(void* f, void* closure) { __CPROVER_assert(0, "out of reach: a second closure type numbers states; only the body of the first is under contract"); func_ctor(f, closure); }
void TW_CTOR(void* tw, void* map, void* f) { if (g_tws == 0) { g_tw1 = tw; g_tw1_map = map; g_tw1_f = f; } else { g_tw2 = tw; g_tw2_map = map; g_tw2_f = f; } g_tws++; }
void AUT_CTOR(void* a, void* alph) { __CPROVER_assert(a == (void*)g_ret && g_step == 0, "C10: the result starts empty"); g_step = 1; }
void RIS(void* self, void* dst, void* tw) {
  if (g_step == 1) { g_ok1 = (self == (void*)g_lhs && dst == (void*)g_ret && tw == g_tw1 && g_tws == 2 && g_funcs == 2 && g_tw1_f == g_f1 && g_tw1_map == (g_pl ? g_pl : g_lm1)); g_step = 2; }
  else { __CPROVER_assert(g_step == 2, "two re-indexings, after the result was constructed");
    g_ok2 = (self == (void*)g_rhs && dst == (void*)g_ret && tw == g_tw2 && tw != g_tw1 && g_tw2_f == g_f2 && g_tw2_map == (g_pr ? g_pr : g_lm2) && g_tw2_map != g_tw1_map && g_cnt1 == g_cnt2 && g_cnt1 != 0); g_step = 3; } }
void AUT_DTOR(void* a) { if (a == (void*)g_ret) g_ret_destroyed = 1; }
void h_UNIONF(void) { g_lhs = malloc(sizeof *g_lhs); g_rhs = malloc(sizeof *g_rhs); g_ret = malloc(sizeof *g_ret); __CPROVER_assume(g_lhs && g_rhs && g_ret);
  g_umaps = 0; g_step = 0; g_funcs = 0; g_tws = 0; g_ret_destroyed = 0; g_pl = nondet_bool() ? malloc(56) : (void*)0; g_pr = nondet_bool() ? malloc(56) : (void*)0;
  UNION(g_ret, g_lhs, g_rhs, g_pl, g_pr); CANARY("h_UNIONF"); }
void h_TRANSLF(void) { g_clo = malloc(sizeof *g_clo); g_cnt = malloc(8); uint64_t* a = malloc(8); __CPROVER_assume(g_clo && g_cnt && a); g_clo->f0 = g_cnt; g_cnt0 = *g_cnt; __CPROVER_assume(g_cnt0 < UINT64_MAX); g_arg = *a;
  uint64_t r = TRANSLF(g_clo, a); CANARY("h_TRANSLF"); }
