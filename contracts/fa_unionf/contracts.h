/* Unit fa_unionf (DESIGN.md 5-C10, 11): ExplicitFiniteAutCore::Union(lhs, rhs, pTranslMapLhs, pTranslMapRhs) as a composition, and its number-giving closure.
   Union: two weak translators are built, over the caller's maps where given (else over two DIFFERENT local maps), whose number-giving functions are built
     from closures capturing the SAME counter, which is 0 when they are built (=> the two images are disjoint ranges of one dense numbering that does not
     depend on how the operands happen to be numbered);  the result is default-constructed;  lhs.ReindexStates(result, translator-lhs) and then
     rhs.ReindexStates(result, translator-rhs), each exactly once;  the result is returned, not destroyed.
   the closure (translFunc): returns the value of the captured counter and advances it by one -- whatever state it is asked about. */
AUT *g_lhs, *g_rhs, *g_ret; void *g_pl, *g_pr;
uint64_t g_umaps, g_step, g_funcs, g_tws; void *g_lm1, *g_lm2, *g_cnt1, *g_cnt2, *g_f1, *g_f2, *g_tw1, *g_tw2, *g_tw1_map, *g_tw2_map, *g_tw1_f, *g_tw2_f; _Bool g_ret_destroyed, g_ok1, g_ok2;
CLOSURE* g_clo; uint64_t* g_cnt; uint64_t g_cnt0, g_arg;
#define UG g_umaps, g_step, g_funcs, g_tws, g_lm1, g_lm2, g_cnt1, g_cnt2, g_f1, g_f2, g_tw1, g_tw2, g_tw1_map, g_tw2_map, g_tw1_f, g_tw2_f, g_ret_destroyed, g_ok1, g_ok2
#define CONTRACT_UNION \
  __CPROVER_requires(v_lhs == g_lhs && v_rhs == g_rhs && v_agg_result == g_ret && v_pTranslMapLhs == g_pl && v_pTranslMapRhs == g_pr && g_umaps == 0 && g_step == 0 && g_funcs == 0 && g_tws == 0 && !g_ret_destroyed) \
  __CPROVER_requires(g_pl == 0 || g_pl != g_pr) \
  __CPROVER_assigns(UG) \
  __CPROVER_ensures(g_step == 3 && g_ok1 && g_ok2 && !g_ret_destroyed)
#define CONTRACT_TRANSLF \
  __CPROVER_requires(v_this == g_clo && g_clo->f0 == g_cnt && *g_cnt == g_cnt0 && g_cnt0 < UINT64_MAX) \
  __CPROVER_assigns(*g_cnt) \
  __CPROVER_ensures(__CPROVER_return_value == g_cnt0 && *g_cnt == g_cnt0 + 1)
