/* Unit fa_union (DESIGN.md 5-C10 / 5-C11): ExplicitFiniteAutCore::UnionDisjointStates(lhs, rhs):
   result = copy of lhs + the edges / start states / start symbols / final states of rhs, the edges inserted into an EXCLUSIVELY OWNED
   map (the copy shares lhs's map first: copy-on-write); both operands are left alone. */
#include "common/sp_ghost.h"
void* g_old_obj; struct GC* g_old_ctrl; uint64_t g_old_count, g_old_content;
void *g_mins_dst, *g_mins_src, *g_fins_dst, *g_fins_src, *g_sins_dst, *g_sins_src, *g_smins_dst, *g_smins_src; uint64_t g_mins, g_setins, g_smins;
FA *g_lhs, *g_rhs, *g_res; void* g_rhs_map; uint64_t g_rhs_content;
#define UG SP_GHOSTS, g_mins_dst, g_mins_src, g_fins_dst, g_fins_src, g_sins_dst, g_sins_src, g_smins_dst, g_smins_src, g_mins, g_setins, g_smins
#define CONTRACT_UDS \
  __CPROVER_requires(v_lhs == g_lhs && v_rhs == g_rhs && v_agg_result == g_res && g_mins == 0 && g_setins == 0 && g_smins == 0) \
  __CPROVER_requires((void*)SP_PTR(&g_lhs->f3) == g_old_obj && SP_CTRL(&g_lhs->f3) == g_old_ctrl && g_old_ctrl->count == g_old_count && g_old_count >= 1 && g_old_count < UINT64_MAX && g_old_ctrl->local == 0 && CONTENT(g_old_obj) == g_old_content && OWNERS(g_old_obj) == g_old_ctrl) \
  __CPROVER_requires((void*)SP_PTR(&g_rhs->f3) == g_rhs_map && g_rhs_map != 0 && g_rhs_map != g_old_obj && CONTENT(g_rhs_map) == g_rhs_content) \
  __CPROVER_assigns(UG, __CPROVER_object_whole(g_res), g_old_ctrl->count) \
  /* the edges of rhs are inserted, once, into the result's own map, which nobody else shares; lhs's map keeps its content and owners */ \
  __CPROVER_ensures(g_mins == 1 && g_mins_dst == (void*)SP_PTR(&g_res->f3) && g_mins_src == g_rhs_map && g_mins_dst != g_old_obj && SP_CTRL(&g_res->f3)->count == 1) \
  __CPROVER_ensures(CONTENT(g_old_obj) == g_old_content && g_old_ctrl->count == g_old_count && CONTENT(g_rhs_map) == g_rhs_content) \
  /* final states, start states and start symbols of rhs are added to the result's own members */ \
  __CPROVER_ensures(g_setins == 2 && g_fins_dst == (void*)&g_res->f0 && g_fins_src == (void*)&g_rhs->f0 && g_sins_dst == (void*)&g_res->f1 && g_sins_src == (void*)&g_rhs->f1) \
  __CPROVER_ensures(g_smins == 1 && g_smins_dst == (void*)&g_res->f2 && g_smins_src == (void*)&g_rhs->f2)
