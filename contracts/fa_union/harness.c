#include "common/sp_stubs.h"
#define CANARY(n) __CPROVER_assert(0, "canary: " n " reaches the end (must FAIL)")
_Bool nondet_bool(void);
DEF_SP_UNIQUE(SPM_UNIQUE, SPMB) DEF_SP_USECOUNT(SPM_USECOUNT, SPMB) DEF_SP_RAW(SPM_RAW, SPM, MAP) DEF_SP_DTOR(SPM_DTOR, SPM) DEF_SP_MOVEASG(SPM_MOVEASG, SPM)
void MAP_COPY(MAP* d, MAP* s) { CONTENT(d) = CONTENT(s); OWNERS(d) = 0; }
/* copy constructor: the edge map is shared with the source */
void FA_COPY(FA* d, FA* s) { SP_PTR(&d->f3) = SP_PTR(&s->f3); SP_CTRLV(&d->f3) = SP_CTRLV(&s->f3); SP_CTRL(&s->f3)->count++; }
void FA_DTOR(FA* a) { }
/* iterators of a container carry the container they range over (begin: container | 1, end: container | 2) */
HNM MAP_BEGIN(MAP* m) { return (HNM)((uintptr_t)m | 1); }
HNM MAP_END(MAP* m) { return (HNM)((uintptr_t)m | 2); }
void MAP_RINSERT(MAP* dst, HNM b, HNM e) { __CPROVER_assert(EXCL(dst), "C11 copy-on-write: the cluster map that is written is exclusively owned (no other automaton shares it)");
  __CPROVER_assert(((uintptr_t)b & ~(uintptr_t)3) == ((uintptr_t)e & ~(uintptr_t)3) && ((uintptr_t)b & 3) == 1 && ((uintptr_t)e & 3) == 2, "range insert over [begin, end) of one container");
  g_mins++; g_mins_dst = dst; g_mins_src = (void*)((uintptr_t)b & ~(uintptr_t)3); CONTENT(dst) = CONTENT(dst) + 1; }
HNS SET_CBEGIN(SETT* s) { return (HNS)((uintptr_t)s | 1); }
HNS SET_CEND(SETT* s) { return (HNS)((uintptr_t)s | 2); }
void SET_RINSERT(SETT* dst, HNS b, HNS e) { __CPROVER_assert(((uintptr_t)b & ~(uintptr_t)3) == ((uintptr_t)e & ~(uintptr_t)3) && ((uintptr_t)b & 3) == 1 && ((uintptr_t)e & 3) == 2, "range insert over [begin, end) of one container");
  void* src = (void*)((uintptr_t)b & ~(uintptr_t)3);
  if ((void*)dst == (void*)&g_res->f0) { g_fins_dst = dst; g_fins_src = src; } else { g_sins_dst = dst; g_sins_src = src; } g_setins++; }
HNSM SMAP_CBEGIN(SMAP* s) { return (HNSM)((uintptr_t)s | 1); }
HNSM SMAP_CEND(SMAP* s) { return (HNSM)((uintptr_t)s | 2); }
void SMAP_RINSERT(SMAP* dst, HNSM b, HNSM e) { __CPROVER_assert(((uintptr_t)b & ~(uintptr_t)3) == ((uintptr_t)e & ~(uintptr_t)3) && ((uintptr_t)b & 3) == 1 && ((uintptr_t)e & 3) == 2, "range insert over [begin, end) of one container");
  g_smins++; g_smins_dst = dst; g_smins_src = (void*)((uintptr_t)b & ~(uintptr_t)3); }
DEF_MK_SHARED(mk_map, SPM, MAP)
void h_UDS(void) { g_lhs = malloc(sizeof *g_lhs); g_rhs = malloc(sizeof *g_rhs); g_res = malloc(sizeof *g_res); __CPROVER_assume(g_lhs && g_rhs && g_res);
  mk_map(&g_lhs->f3); mk_map(&g_rhs->f3); g_old_obj = SP_PTR(&g_lhs->f3); g_old_ctrl = SP_CTRL(&g_lhs->f3); g_old_count = g_old_ctrl->count; g_old_content = CONTENT(g_old_obj);
  g_rhs_map = SP_PTR(&g_rhs->f3); g_rhs_content = CONTENT(g_rhs_map); g_mins = g_setins = g_smins = 0;
  UDS(g_res, g_lhs, g_rhs); CANARY("h_UDS"); }
