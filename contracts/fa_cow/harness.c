#include "common/sp_stubs.h"
#define CANARY(n) __CPROVER_assert(0, "canary: " n " reaches the end (must FAIL)")
_Bool nondet_bool(void);
#define TOKEN(T) ((T)(uintptr_t)8)
#define COW_WRITE(o, what) __CPROVER_assert(EXCL(o), "C11 copy-on-write: " what " that is written is exclusively owned (no other automaton shares it)")
DEF_SP_UNIQUE(SPM_UNIQUE, SPMB) DEF_SP_USECOUNT(SPM_USECOUNT, SPMB) DEF_SP_RAW(SPM_RAW, SPM, MAP) DEF_SP_DTOR(SPM_DTOR, SPM) DEF_SP_MOVEASG(SPM_MOVEASG, SPM)
DEF_SP_UNIQUE(SPC_UNIQUE, SPCB) DEF_SP_USECOUNT(SPC_USECOUNT, SPCB) DEF_SP_RAW(SPC_RAW, SPC, CLU) DEF_SP_DTOR(SPC_DTOR, SPC) DEF_SP_MOVEASG(SPC_MOVEASG, SPC) DEF_SP_NULL(SPC_NULL, SPC) DEF_SP_BOOL(SPC_BOOL, SPCB)
DEF_MK_SHARED(mk_map, SPM, MAP) DEF_MK_SHARED(mk_clu, SPC, CLU)
void MAP_COPY(MAP* d, MAP* s) { CONTENT(d) = CONTENT(s); OWNERS(d) = 0; }
void CLU_COPY(CLU* d, CLU* s) { CONTENT(d) = CONTENT(s); OWNERS(d) = 0; }
void CLU_NEW(CLU* d) { CONTENT(d) = 0; OWNERS(d) = 0; }
void MAP_MKPAIR(MAP_PAIR* ret, uint64_t* k, SPC* v) { ret->f0 = *k; SP_PTR(&ret->f1) = SP_PTR(v); SP_CTRLV(&ret->f1) = SP_CTRLV(v); SP_PTR(v) = 0; SP_CTRLV(v) = 0; }
void MAP_PAIRDTOR(MAP_PAIR* p) { sp_release_((void**)&SP_PTR(&p->f1), (void**)&SP_CTRLV(&p->f1)); }
MAP_INSRET MAP_INSERT(MAP* m, MAP_INSARG* kv) { COW_WRITE(m, "the cluster map");
  if (!g_existed) { cell_me.f0 = kv->f0; SP_PTR(&cell_me.f1) = 0; SP_CTRLV(&cell_me.f1) = 0; } else cell_me.f0 = kv->f0;
  MAP_INSRET r; r.f0 = TOKEN(__typeof__(r.f0)); r.f1 = !g_existed; return r; }
MAP_E* MAP_ARROW(MAP_IT* it) { __CPROVER_assert(it->f0.f0 != 0, "-> on a valid map iterator"); return &cell_me; }
/* the cluster: symbol -> target set */
CLU_HN CLU_FIND(CLU* c, uint64_t* k) { g_found = nondet_bool(); if (g_found) cell_ce.f0 = *k; return g_found ? TOKEN(CLU_HN) : (CLU_HN)0; }
CLU_HN CLU_END(CLU* c) { return (CLU_HN)0; }
void CLU_MKPAIR(CLU_PAIR* ret, uint64_t* k, SS* v) { ret->f0 = *k; }
void CLU_PAIRDTOR(CLU_PAIR* p) { }
CLU_INSRET CLU_INSERT(CLU* c, CLU_INSARG* kv) { COW_WRITE(c, "the transition cluster"); __CPROVER_assert(!g_found, "insert only after an unsuccessful find");
  cell_ce.f0 = kv->f0; CLU_INSRET r; r.f0 = TOKEN(__typeof__(r.f0)); r.f1 = 1; return r; }
CLU_E* CLU_ARROW(CLU_IT* it) { __CPROVER_assert(it->f0.f0 != 0, "-> on a valid cluster iterator"); return &cell_ce; }
void SS_NEW(SS* s) { } void SS_DTOR(SS* s) { }
SS_INSRET SS_INSERT(void* s, uint64_t* x) { __CPROVER_assert(g_rs_cluster != 0 && EXCL(g_rs_cluster), "C11 copy-on-write: the target set written lives in an exclusively owned cluster");
  g_ss_inserts++; g_ins_set = s; g_ins_val = *x; SS_INSRET r; r.f1 = nondet_bool(); return r; }
#ifdef STUB_UCM
SPM* UCM(AUT* a) { SPM* sp = &a->f3; __CPROVER_assert(SP_PTR(sp) != 0, "uniqueClusterMap precondition: the automaton has a map");
  if (SP_CTRL(sp)->count != 1) { SPM_DTOR(sp); MAP* m = malloc(sizeof *m); __CPROVER_assume(m != 0); SPM_RAW(sp, m); } return sp; }
#endif
#ifdef STUB_UC
SPC* UC(MAP* m, uint64_t* st) { __CPROVER_assert(EXCL(m), "C11 precondition of uniqueCluster: the cluster map is exclusively owned");
  CLU* c = malloc(sizeof *c); __CPROVER_assume(c != 0); SPC_RAW(&cell_me.f1, c); cell_me.f0 = *st; return &cell_me.f1; }
#endif
#ifdef STUB_URS
SS* URS(CLU* c, uint64_t* sy) { __CPROVER_assert(EXCL(c), "C11 precondition of uniqueRStateSet: the transition cluster is exclusively owned"); g_rs_cluster = c; cell_ce.f0 = *sy; return &cell_ce.f1; }
#endif
#ifdef STUB_IAT
void IAT(AUT* a, uint64_t* l, uint64_t* s, uint64_t* r) { g_iat_calls++; g_iat_this = a; g_iat_l = *l; g_iat_s = *s; g_iat_r = *r; }
#endif
static void bind_old(void* obj, void* ctrl) { g_old_obj = obj; g_old_ctrl = (struct GC*)ctrl; if (obj) { g_old_count = g_old_ctrl->count; g_old_content = CONTENT(obj); } }
static AUT* mk_aut(void) { AUT* a = malloc(sizeof *a); __CPROVER_assume(a != 0); mk_map(&a->f3); return a; }
void h_UCM(void) { AUT* a = mk_aut(); bind_old(SP_PTR(&a->f3), SP_CTRLV(&a->f3)); UCM(a); CANARY("h_UCM"); }
void h_UC(void) { SPM own; mk_map(&own); __CPROVER_assume(SP_CTRL(&own)->count == 1); MAP* m = SP_PTR(&own); uint64_t st; g_key = st;
  g_existed = nondet_bool(); _Bool nul = nondet_bool(); if (g_existed && !nul) mk_clu(&cell_me.f1); else { SP_PTR(&cell_me.f1) = 0; SP_CTRLV(&cell_me.f1) = 0; }
  bind_old(SP_PTR(&cell_me.f1), SP_CTRLV(&cell_me.f1)); UC(m, &st); CANARY("h_UC"); }
void h_URS(void) { SPC own; mk_clu(&own); __CPROVER_assume(SP_CTRL(&own)->count == 1); CLU* c = SP_PTR(&own); uint64_t sy; g_key = sy; URS(c, &sy); CANARY("h_URS"); }
void h_IAT(void) { AUT* a = mk_aut(); uint64_t l, s, r; g_ss_inserts = 0; g_rs_cluster = 0; bind_old(SP_PTR(&a->f3), SP_CTRLV(&a->f3)); IAT(a, &l, &s, &r); CANARY("h_IAT"); }
void h_ADDT(void) { AUT* a = malloc(sizeof *a); __CPROVER_assume(a != 0); uint64_t l, s, r; g_iat_calls = 0; ADDT(a, &l, &s, &r); CANARY("h_ADDT"); }
