/* Unit fa_cow (DESIGN.md 5-C11): copy-on-write of the two-level edge store of ExplicitFiniteAutCore (map -> cluster; the target-state
   sets live inside the cluster).  Same vocabulary as unit ta_cow. */
#include "common/sp_ghost.h"
void* g_old_obj; struct GC* g_old_ctrl; uint64_t g_old_count, g_old_content; _Bool g_existed, g_found;
uint64_t g_ss_inserts, g_iat_calls, g_key; void* g_ins_set; uint64_t g_ins_val; void* g_rs_cluster;
uint64_t g_iat_l, g_iat_s, g_iat_r; void* g_iat_this;
MAP_E cell_me; CLU_E cell_ce;
#define COW_GHOSTS SP_GHOSTS, g_ss_inserts, g_iat_calls, g_ins_set, g_ins_val, g_existed, g_found, g_rs_cluster, cell_me, cell_ce, g_iat_l, g_iat_s, g_iat_r, g_iat_this
#define POST_UNIQUE(sp) \
  __CPROVER_ensures(SP_PTR(sp) != 0 && SP_CTRL(sp) != 0 && SP_CTRL(sp)->count == 1 && OWNERS(SP_PTR(sp)) == SP_CTRL(sp)) \
  __CPROVER_ensures(g_old_obj != 0 ==> CONTENT(SP_PTR(sp)) == g_old_content) \
  __CPROVER_ensures((g_old_obj != 0 && g_old_count == 1) ==> ((void*)SP_PTR(sp) == g_old_obj && SP_CTRL(sp) == g_old_ctrl)) \
  __CPROVER_ensures((g_old_obj != 0 && g_old_count > 1) ==> ((void*)SP_PTR(sp) != g_old_obj && g_old_ctrl->count == g_old_count - 1 && CONTENT(g_old_obj) == g_old_content))
#define PRE_OLD(sp) ((void*)SP_PTR(sp) == g_old_obj && SP_CTRL(sp) == g_old_ctrl && (g_old_obj != 0 ==> (g_old_ctrl != 0 && g_old_ctrl->count == g_old_count && g_old_count >= 1 && g_old_ctrl->local == 0 && CONTENT(g_old_obj) == g_old_content && OWNERS(g_old_obj) == g_old_ctrl)))
#define CONTRACT_UCM \
  __CPROVER_requires(PRE_OLD(&v_this->f3) && g_old_obj != 0) \
  __CPROVER_assigns(COW_GHOSTS, v_this->f3.f0.f0, v_this->f3.f0.f1.f0, g_old_ctrl->count) \
  __CPROVER_ensures(__CPROVER_return_value == &v_this->f3) \
  POST_UNIQUE(&v_this->f3)
#define CONTRACT_UC \
  __CPROVER_requires(EXCL(v_this) && PRE_OLD(&cell_me.f1) && g_key == *v_state) \
  __CPROVER_assigns(COW_GHOSTS; g_old_ctrl != 0: g_old_ctrl->count) \
  __CPROVER_ensures(__CPROVER_return_value == &cell_me.f1 && cell_me.f0 == g_key) \
  POST_UNIQUE(&cell_me.f1)
/* uniqueRStateSet: the cluster must be exclusively owned; returns the target set stored under the symbol, created if absent */
#define CONTRACT_URS \
  __CPROVER_requires(EXCL(v_this) && g_key == *v_symbol) \
  __CPROVER_assigns(COW_GHOSTS) \
  __CPROVER_ensures(__CPROVER_return_value == &cell_ce.f1 && cell_ce.f0 == g_key)
/* internalAddTransition / AddTransition: exactly one insert, of the target state, into a target set of an exclusively owned cluster */
#define CONTRACT_IAT \
  __CPROVER_requires(g_ss_inserts == 0 && PRE_OLD(&v_this->f3) && g_old_obj != 0) \
  __CPROVER_assigns(COW_GHOSTS, v_this->f3.f0.f0, v_this->f3.f0.f1.f0, g_old_ctrl->count) \
  __CPROVER_ensures(g_ss_inserts == 1 && g_ins_val == *v_rstate) \
  __CPROVER_ensures(g_old_count > 1 ==> CONTENT(g_old_obj) == g_old_content)
#define CONTRACT_ADDT \
  __CPROVER_requires(g_iat_calls == 0) \
  __CPROVER_assigns(COW_GHOSTS) \
  __CPROVER_ensures(g_iat_calls == 1 && g_iat_this == (void*)v_this && g_iat_l == *v_lstate && g_iat_s == *v_symbol && g_iat_r == *v_rstate)
