#define CANARY(n) __CPROVER_assert(0, "canary: " n " reaches the end (must FAIL)")
#define TOK ((void*)(uintptr_t)8)
#define MAYBE (nondet_bool() ? TOK : (void*)0)
#define TOKCL ((void*)(uintptr_t)16)     /* the cluster A gives to the state in hand (work loop) */
_Bool nondet_bool(void); uint64_t nondet_u64(void);
uint64_t __CPROVER_uninterpreted_FIN(uint64_t s); uint64_t __CPROVER_uninterpreted_START(uint64_t s); uint64_t __CPROVER_uninterpreted_HASCL(uint64_t s); uint64_t __CPROVER_uninterpreted_CLU(uint64_t s);
#define FIN(s) (__CPROVER_uninterpreted_FIN(s) != 0)
#define START(s) (__CPROVER_uninterpreted_START(s) != 0)
#define HASCL(s) (__CPROVER_uninterpreted_HASCL(s) != 0)
#define CLU(s) ((void*)(uintptr_t)(__CPROVER_uninterpreted_CLU(s) | 32))
typedef struct { struct { void* f0; } f0; } ITP;
/* ---- the computed set starts as the start states; the work list as its content ---- */
void* GST(void* a) { __CPROVER_assert(a == (void*)g_this, "start states of A"); return m_start; }
void USET_COPY(void* d, void* s) { __CPROVER_assert(s == m_start, "C10: the search starts from A's start states"); g_reach = d;
  r_wp = START(wp); r_wc = START(wc); r_ws = START(ws); r_wx = START(wx);
  __CPROVER_assume((!r_wp || T_REACH[wp] != 0) && (!r_wc || T_REACH[wc] != 0) && (!r_ws || T_REACH[ws] != 0) && (!r_wx || T_REACH[wx] != 0)); }   /* start states are reachable by definition */
void USET_DTOR(void* s) { } void ALU_CTOR(void* a) { } void ALU_DTOR(void* a) { } void VEC_DTOR(void* v) { }
void* USET_BEGIN(void* s) { __CPROVER_assert(s == g_reach, "traversal of the computed set"); seen_x = 0; cur_x = 0; return r_wx ? TOK : MAYBE; }
void* USET_END(void* s) { return (void*)0; }
void VEC_RANGE(void* v, void* b, void* e, void* al) { pend_wp = r_wp; }
_Bool VEC_EMPTY(void* v) { _Bool e = nondet_bool(); __CPROVER_assume(!e || !pend_wp); return e; }
uint64_t* VEC_BACK(void* v) { uint64_t q = nondet_u64(); __CPROVER_assume(q != wp || pend_wp);
  __CPROVER_assume(T_REACH[q] != 0 && (q != wp || r_wp) && (q != wc || r_wc) && (q != ws || r_ws) && (q != wx || r_wx));   /* store invariant of the work list: asserted at every push */
  cell_front = q; g_front = q; g_work = 1; return &cell_front; }
void VEC_POP(void* v) { g_q = g_front; q_is_wp = (g_front == wp); if (q_is_wp) pend_wp = 0; }
USET_INSRET USET_INSERT(void* s, uint64_t* x) {
  if (g_res_made && s == (void*)&((AUT*)g_res)->f1) { __CPROVER_assert(START(*x) && *x == g_cur, "C10: only a start state of A that is in the computed set is made a start state of the result"); if (*x == wx) resstart_wx = 1; USET_INSRET r0; r0.f1 = nondet_bool(); return r0; }
  __CPROVER_assert(s == g_reach && T_REACH[*x] != 0, "C10 soundness: only reachable states enter the computed set"); USET_INSRET r; r.f1 = nondet_bool();
  if (*x == wp) { r.f1 = !r_wp; r_wp = 1; } if (*x == wc) { r.f1 = !r_wc; r_wc = 1; } if (*x == ws) { r.f1 = !r_ws; r_ws = 1; } if (*x == wx) { r.f1 = !r_wx; r_wx = 1; } return r; }
void VEC_PUSH(void* v, uint64_t* x) { __CPROVER_assert(T_REACH[*x] != 0 && (*x != wp || r_wp) && (*x != wc || r_wc) && (*x != ws || r_ws) && (*x != wx || r_wx), "C10: only states of the computed set (reachable states) are put on the work list"); if (*x == wp) pend_wp = 1; }
/* ---- the cluster of the state in hand and its edges: witness traversal ---- */
void* GLOOKUP(void* m, uint64_t* k) { __CPROVER_assert(m == m_this && *k == g_q, "look-up of the state in hand in A's cluster map"); _Bool hit = (*k == wp && has_e) ? 1 : nondet_bool(); return hit ? TOKCL : (void*)0; }
void* CLUC_BEGIN(void* c) { __CPROVER_assert(c == TOKCL, "traversal of the cluster found"); seen_a = 0; cur_a = 0; return (q_is_wp && has_e) ? TOK : MAYBE; }
void* CLUC_END(void* c) { return (void*)0; }
void* CLUC_DEREF(void* it_) { CLI* it = (CLI*)it_; __CPROVER_assert(it->f0.f0 != 0, "no dereference of an end iterator"); cur_a = q_is_wp && has_e && nondet_bool() && !seen_a; if (cur_a) seen_a = 1;
  cell_clu.f0 = nondet_u64(); if (cur_a) cell_clu.f0 = wa; else __CPROVER_assume(!(q_is_wp && has_e) || cell_clu.f0 != wa); return &cell_clu; }
void* CLUC_INC(void* it_) { CLI* it = (CLI*)it_; it->f0.f0 = MAYBE; __CPROVER_assume(it->f0.f0 != 0 || !(q_is_wp && has_e) || seen_a); return it; }
void* CUSET_BEGIN(void* s) { __CPROVER_assert(s == (void*)&cell_clu.f1, "traversal of the target set of the entry under the cursor"); seen_c = 0; cur_c = 0; return (q_is_wp && has_e && cur_a) ? TOK : MAYBE; }
void* CUSET_END(void* s) { return (void*)0; }
uint64_t* CUSI_DEREF(void* it_) { CUSI* it = (CUSI*)it_; __CPROVER_assert(it->f0.f0 != 0, "no dereference of an end iterator"); cur_c = q_is_wp && has_e && cur_a && nondet_bool() && !seen_c; if (cur_c) seen_c = 1;
  cell_succ = cur_c ? wc : nondet_u64(); __CPROVER_assume(T_REACH[g_q] == 0 || T_REACH[cell_succ] != 0);   /* definition of reachability, unfolded at the edge visited */
  return &cell_succ; }
void* CUSI_INC(void* it_) { CUSI* it = (CUSI*)it_; it->f0.f0 = MAYBE; __CPROVER_assume(it->f0.f0 != 0 || !(q_is_wp && has_e && cur_a) || seen_c); return it; }
/* ---- the computed set as a sequence (translation map, result) ---- */
uint64_t* USI_DEREF(void* it_) { USI* it = (USI*)it_; __CPROVER_assert(it->f0.f0 != 0, "no dereference of an end iterator"); cur_x = r_wx && nondet_bool() && !seen_x; if (cur_x) seen_x = 1;
  cell_x = nondet_u64(); if (cur_x) cell_x = wx; else __CPROVER_assume(cell_x != wx);     /* an element of the set other than wx (wx itself is handed out exactly once iff it is in the set) */
  g_cur = cell_x; return &cell_x; }
void* USI_INC(void* it_) { USI* it = (USI*)it_; it->f0.f0 = MAYBE; __CPROVER_assume(it->f0.f0 != 0 || !r_wx || seen_x); return it; }
PAIR_UU MKPAIR_UU(uint64_t* a, uint64_t* b) { PAIR_UU r; r.f0 = *a; r.f1 = *b; return r; }
TM_INSRET TM_INSERT(void* m, void* kv) { PAIR_UU* p = (PAIR_UU*)kv; __CPROVER_assert(m == g_tm && g_tm != 0 && p->f0 == g_cur && p->f1 == g_cur, "C10: the translation map reports (s, s) for the state of the computed set under the cursor");
  if (p->f0 == wx) tm_wx = 1; TM_INSRET r; r.f1 = nondet_bool(); return r; }
/* ---- the result ---- */
void AUT_CTOR(void* a, void* alph) { __CPROVER_assert(a == (void*)g_ret, "the result is built in the object returned"); g_res = a; g_res_made = 1; } void AUT_DTOR(void* a) { __CPROVER_assert(a != (void*)g_ret, "the result is not destroyed"); }
void* SS_ASSIGN(void* d, void* s) { if (d == (void*)&((AUT*)g_res)->f1 && s == (void*)&g_this->f1) { g_ss_ok = 1; resstart_wx = st_wx; } else __CPROVER_assert(0, "C10: the only state set assigned is result.startStates_ = this->startStates_"); return d; }
void* SMAP_ASSIGN(void* d, void* s) { if (d == (void*)&((AUT*)g_res)->f2 && s == (void*)&g_this->f2) g_sm_ok = 1; else __CPROVER_assert(0, "C10: the only start-symbol map assigned is result.startStateToSymbols_ = this->startStateToSymbols_"); return d; }
void MAP_CTOR(void* m) { m_res = m; }
void SP_FROM_RAW(void* sp, void* raw) { SP_PTR((SPM*)sp) = raw; }
void* SP_MOVE_ASSIGN(void* d, void* s) { __CPROVER_assert(d == (void*)&((AUT*)g_res)->f3 && SP_PTR((SPM*)s) == m_res, "the fresh cluster map becomes the result's"); SP_PTR((SPM*)d) = SP_PTR((SPM*)s); SP_PTR((SPM*)s) = 0; return d; }
void SP_DTOR(void* sp) { }
_Bool ISS(void* a, uint64_t* x) { __CPROVER_assert(a == (void*)g_this, "start states are asked of A"); return START(*x); }
_Bool ISF(void* a, uint64_t* x) { __CPROVER_assert(a == (void*)g_this && *x == g_cur, "finality of the state under the cursor is asked of A"); return FIN(*x); }
void SSF(void* a, uint64_t* x) { __CPROVER_assert(a == g_res && FIN(*x) && *x == g_cur, "C10: only a final state of A that is in the computed set is made final in the result"); if (*x == wx) resfin_wx = 1; }
void* CMAP_FIND(void* m, uint64_t* k) { __CPROVER_assert(m == m_this && *k == g_cur, "look-up of the state under the cursor in A's cluster map"); g_find_key = *k; return HASCL(*k) ? TOK : (void*)0; }
void* CMAP_END(void* m) { return (void*)0; }
void* CMAP_ARROW(void* it) { __CPROVER_assert(((void**)it)[0] != 0, "-> on the entry found"); cell_cm.f0 = g_find_key; SP_PTR(&cell_cm.f1) = CLU(g_find_key); return &cell_cm; }
void MKPAIR_SC(void* ret, uint64_t* k, void* spc) { ((PAIR_SC*)ret)->f0 = *k; SP_PTR(&((PAIR_SC*)ret)->f1) = SP_PTR((__typeof__(&cell_cm.f1))spc); }
void PAIR_SC_DTOR(void* p) { }
RMAP_INSRET RMAP_INSERT(void* m, void* kv) { PAIR_SC* p = (PAIR_SC*)kv; __CPROVER_assert(m == m_res && p->f0 == g_cur && HASCL(g_cur) && SP_PTR(&p->f1) == CLU(g_cur), "C10: the cluster put into the result for a state of the computed set is the cluster A gives it");
  if (p->f0 == wx) rescl_wx = 1; RMAP_INSRET r; r.f1 = nondet_bool(); return r; }
void h_RUNR(void) { g_this = malloc(sizeof *g_this); g_ret = malloc(sizeof *g_ret); m_this = malloc(64); m_start = malloc(64); __CPROVER_assume(g_this && g_ret && m_this && m_start);
  SP_PTR(&g_this->f3) = m_this; g_tm = nondet_bool() ? malloc(8) : (void*)0;
  st_ws = START(ws); st_wx = START(wx); resstart_wx = 0; fin_wx = FIN(wx); cl_wx = HASCL(wx);
  g_work = g_work_done = tm_wx = resfin_wx = rescl_wx = g_ss_ok = g_sm_ok = g_res_made = 0;
  RUNR(g_ret, g_this, g_tm); CANARY("h_RUNR"); }
