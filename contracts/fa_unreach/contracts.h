/* Unit fa_unreach (DESIGN.md 5-C10, 11): ExplicitFiniteAutCore::RemoveUnreachableStates(pTranslMap) of a finite automaton A.
   Tracked: the WITNESS EDGE wp --wa--> wc of A (exists iff has_e), the WITNESS START STATE ws (start iff st_ws), an ARBITRARY state wx.
   r_x = "x is in reachableStates", pend_wp = "wp is on the work list".
   (U1) SOUND      every state entering the computed set / the work list is reachable from a start state (T_REACH, unfolded at the edge visited)
   (U2) CLOSED     when the work list is exhausted: start states are in the set, and wp in the set ==> wc in the set  (the set is the reachable states)
   (U3) RESULT     for the arbitrary state wx:  wx in the set ==> (wx final in the result <=> wx final in A) and (the result maps wx to the
                   cluster A gives it <=> A has one);  wx not in the set ==> the result knows nothing about wx
   (U4) STARTS     for the arbitrary state wx: wx is a start state of the result <=> it is one of A (every start state is reachable);
                   the start symbols are assigned from A's
   (U5) TRANSLMAP  with a map passed in, every state of the set is reported as (s, s); without one nothing is reported. */
#include "common/sp_ghost.h"
extern uint8_t T_REACH[__CPROVER_constant_infinity_uint];
uint64_t wp, wa, wc, ws, wx; _Bool has_e, st_ws, fin_wx, cl_wx;
_Bool r_wp, r_wc, r_ws, r_wx, pend_wp, q_is_wp, g_work;
_Bool seen_a, cur_a, seen_c, cur_c, seen_x, cur_x, g_work_done;
uint64_t g_q, g_front, g_find_key, g_cur, cell_front, cell_succ, cell_x;
_Bool tm_wx, resfin_wx, rescl_wx, resstart_wx, st_wx, g_ss_ok, g_sm_ok, g_res_made;
E_CMAP cell_cm; E_CLU cell_clu; AUT *g_this, *g_ret; void *g_tm, *g_res, *g_reach, *m_this, *m_res, *m_start;
#define BEQ(a, b) (!(a) == !(b))
#define CONS ((wp != wc || BEQ(r_wp, r_wc)) && (wp != ws || BEQ(r_wp, r_ws)) && (wp != wx || BEQ(r_wp, r_wx)) && (wc != ws || BEQ(r_wc, r_ws)) && (wc != wx || BEQ(r_wc, r_wx)) && (ws != wx || BEQ(r_ws, r_wx)))
#define G_SUCC  r_wp, r_wc, r_ws, r_wx, pend_wp, seen_c, cur_c, cell_succ
#define G_SYMS  G_SUCC, seen_a, cur_a, cell_clu
#define G_WORK  G_SYMS, q_is_wp, g_q, g_front, g_find_key, cell_front, g_work
#define G_TM    seen_x, cur_x, cell_x, g_cur, tm_wx
#define G_RES   seen_x, cur_x, cell_x, g_cur, resfin_wx, rescl_wx, resstart_wx, g_find_key, cell_cm
#define CLOSED  ((st_ws ==> r_ws) && ((r_wp && has_e) ==> r_wc))
#define CONTRACT_RUNR \
  __CPROVER_requires(v_this == g_this && v_agg_result == g_ret && v_pTranslMap == g_tm && !g_work && !g_work_done && !tm_wx && !resfin_wx && !rescl_wx && !resstart_wx && !g_ss_ok && !g_sm_ok && !g_res_made) \
  __CPROVER_assigns(G_WORK, G_TM, G_RES, g_res, g_reach, g_ss_ok, g_sm_ok, resstart_wx, g_res_made, g_work_done, m_res, __CPROVER_object_whole(g_ret)) \
  __CPROVER_ensures(CLOSED) \
  __CPROVER_ensures(r_wx ==> (BEQ(resfin_wx, fin_wx) && BEQ(rescl_wx, cl_wx))) \
  __CPROVER_ensures(!r_wx ==> (!resfin_wx && !rescl_wx)) \
  __CPROVER_ensures(BEQ(resstart_wx, st_wx) && g_sm_ok && g_res_made) \
  __CPROVER_ensures(g_tm != 0 ==> (r_wx ==> tm_wx)) \
  __CPROVER_ensures(g_tm == 0 ==> !tm_wx)
#define LOOPASG_RUNR__L_WORK , G_WORK
#define LOOP_RUNR__L_WORK \
  __CPROVER_loop_invariant(CONS && (st_ws ==> r_ws) && ((r_wp && !pend_wp && has_e) ==> r_wc) && (pend_wp ==> r_wp))
#define CARRY __CPROVER_loop_invariant(CONS && (st_ws ==> r_ws) && ((!q_is_wp && r_wp && !pend_wp && has_e) ==> r_wc) && (pend_wp ==> r_wp) && T_REACH[g_q] != 0 && g_work && BEQ(q_is_wp, g_q == wp) && (q_is_wp ==> (r_wp && !pend_wp)))
#define LOOPASG_RUNR__L_SYMS , G_SYMS
#define LOOP_RUNR__L_SYMS CARRY \
  __CPROVER_loop_invariant(END_RUNR__L_SYMS.f0.f0 == 0) \
  __CPROVER_loop_invariant((q_is_wp && has_e && BEGIN_RUNR__L_SYMS.f0.f0 == 0) ==> seen_a) \
  __CPROVER_loop_invariant((q_is_wp && has_e && seen_a) ==> r_wc)
#define LOOPASG_RUNR__L_SUCC , G_SUCC
#define LOOP_RUNR__L_SUCC CARRY \
  __CPROVER_loop_invariant(END_RUNR__L_SUCC.f0.f0 == 0) \
  __CPROVER_loop_invariant((q_is_wp && has_e && cur_a && BEGIN_RUNR__L_SUCC.f0.f0 == 0) ==> seen_c) \
  __CPROVER_loop_invariant((q_is_wp && has_e && cur_a && seen_c) ==> r_wc) \
  __CPROVER_loop_invariant((q_is_wp && has_e && !cur_a && seen_a) ==> r_wc)
#define LOOPASG_RUNR__L_TM , G_TM
#define LOOP_RUNR__L_TM \
  __CPROVER_loop_invariant(END_RUNR__L_TM.f0.f0 == 0 && g_tm != 0 && (tm_wx ==> r_wx)) \
  __CPROVER_loop_invariant((r_wx && BEGIN_RUNR__L_TM.f0.f0 == 0) ==> seen_x) \
  __CPROVER_loop_invariant((r_wx && seen_x) ==> tm_wx)
#define LOOPASG_RUNR__L_RES , G_RES
#define LOOP_RUNR__L_RES \
  __CPROVER_loop_invariant(END_RUNR__L_RES.f0.f0 == 0 && g_res_made && (g_ss_ok ==> BEQ(resstart_wx, st_wx)) && (resstart_wx ==> st_wx) && ((resfin_wx || rescl_wx) ==> r_wx) && (resfin_wx ==> fin_wx) && (rescl_wx ==> cl_wx)) \
  __CPROVER_loop_invariant((r_wx && BEGIN_RUNR__L_RES.f0.f0 == 0) ==> seen_x) \
  __CPROVER_loop_invariant((r_wx && seen_x) ==> (BEQ(resfin_wx, fin_wx) && BEQ(rescl_wx, cl_wx) && BEQ(resstart_wx, st_wx)))
