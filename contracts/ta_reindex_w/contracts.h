/* Unit ta_reindex_w (DESIGN.md 5-C14, 11): the value-returning wrappers.  "Exactly the image" needs the destination to start EMPTY:
   ReindexStates(index, addFinalStates): the result object is default-constructed (no rules, no final states -- nothing of *this is copied into it),
     then ReindexStates(result, index, addFinalStates) runs exactly once on it with the caller's index and flag, then the alphabet of *this is set;
   CollapseStates(stateMap) = ReindexStates(stateMap, true): final states are always translated.  Stated so that an implementation that re-indexes
   directly is also admitted: exactly one re-indexing of *this with addFinalStates == true into the returned object, which was EMPTY before it
   (default-constructed, or copy-constructed from an automaton with copyTrans == false and copyFinal == false). */
AUT *g_this, *g_ret; IX* g_ix; _Bool g_flag;
uint64_t g_ctor_calls, g_ris_calls, g_setalpha_calls, g_risv_calls; _Bool g_ok_ctor, g_ok_ris, g_ok_alpha, g_ok_risv, g_dst_empty; void* g_alpha_tok;
#define WG g_dst_empty, g_ctor_calls, g_ris_calls, g_setalpha_calls, g_risv_calls, g_ok_ctor, g_ok_ris, g_ok_alpha, g_ok_risv, g_alpha_tok
#define CONTRACT_RISV \
  __CPROVER_requires(v_this == g_this && v_agg_result == g_ret && v_index == g_ix && v_addFinalStates == g_flag && g_ctor_calls == 0 && g_ris_calls == 0 && g_setalpha_calls == 0) \
  __CPROVER_assigns(WG) \
  __CPROVER_ensures(g_ctor_calls == 1 && g_ok_ctor) \
  __CPROVER_ensures(g_ris_calls == 1 && g_ok_ris) \
  __CPROVER_ensures(g_setalpha_calls == 1 && g_ok_alpha)
#define CONTRACT_COLLAPSE \
  __CPROVER_requires(v_this == g_this && v_agg_result == g_ret && v_stateMap == g_ix && g_risv_calls == 0 && g_ris_calls == 0 && g_ctor_calls == 0 && g_flag) \
  __CPROVER_assigns(WG) \
  __CPROVER_ensures((g_risv_calls == 1 && g_ok_risv && g_ris_calls == 0) || (g_risv_calls == 0 && g_ris_calls == 1 && g_ok_ris && g_ctor_calls == 1 && g_ok_ctor && g_dst_empty))
