#define CANARY(n) __CPROVER_assert(0, "canary: " n " reaches the end (must FAIL)")
_Bool nondet_bool(void);
void AUT_CTOR(void* a, void* cache, void* alph) { g_ok_ctor = (a == (void*)g_ret && g_ris_calls == 0 && g_ctor_calls == 0); g_ctor_calls++; g_dst_empty = 1; }      /* the result object itself, before anything else */
void RIS(void* self, void* dst, void* ix, _Bool fl) { g_ok_ris = (self == (void*)g_this && dst == (void*)g_ret && ix == (void*)g_ix && fl == g_flag && g_ctor_calls == 1 && g_ris_calls == 0); g_ris_calls++; }
void AUT_COPY3(void* d, void* s, _Bool ct, _Bool cf) { g_ok_ctor = (d == (void*)g_ret && g_ris_calls == 0 && g_ctor_calls == 0); g_ctor_calls++; g_dst_empty = !ct && !cf; }   /* a copy is empty only if neither rules nor final states are copied */
void* GET_ALPHA(void* a) { __CPROVER_assert(a == (void*)g_this, "the alphabet is taken from *this"); g_alpha_tok = (void*)&g_this->f3; return g_alpha_tok; }
void SET_ALPHA(void* a, void* al) { g_ok_alpha = (a == (void*)g_ret && al == g_alpha_tok && g_ris_calls == 1); g_setalpha_calls++; }
void AUT_DTOR(void* a) { __CPROVER_assert(0, "the result object is not destroyed"); }
#ifdef STUB_RISV
void RISV(AUT* ret, AUT* self, IX* ix, _Bool fl) { g_ok_risv = (ret == g_ret && self == g_this && ix == g_ix && fl && g_risv_calls == 0); g_risv_calls++; }
#endif
static void setup(void) { g_this = malloc(sizeof *g_this); g_ret = malloc(sizeof *g_ret); g_ix = malloc(sizeof *g_ix); __CPROVER_assume(g_this && g_ret && g_ix); g_ctor_calls = 0; g_ris_calls = 0; g_setalpha_calls = 0; g_risv_calls = 0; g_flag = nondet_bool(); }
void h_RISV(void) { setup(); RISV(g_ret, g_this, g_ix, g_flag); CANARY("h_RISV"); }
void h_COLLAPSE(void) { setup(); g_flag = 1; COLLAPSE(g_ret, g_this, g_ix); CANARY("h_COLLAPSE"); }
