/* Unit fa_mcache (DESIGN.md 5-C09, 11): MacroStateCache<ExplicitFiniteAutCore>::insert interns macro-states for the congruence and the
   cached antichain algorithms; two macro-states that are NOT equal as sets must never be identified (the algorithms compare the
   interned pointers).  The deciding comparison is the closure areEqual(lss, rss):
     returns true   ==>  |lss| == |rss|, lss non-empty, and an ARBITRARY witness element w of lss is in rss   (subset + equal size = equal)
     returns false  ==>  the sizes differ, or lss is empty, or some element of lss was found missing in rss. */
uint64_t w; _Bool in_l, in_r;          /* the witness element and its membership in the two sets */
uint64_t g_szl, g_szr; void *g_l, *g_r;
_Bool seen, g_missing; uint64_t cell_e;
#define MG seen, g_missing, cell_e
#define CONTRACT_AREEQ \
  __CPROVER_requires(v_lss == g_l && v_rss == g_r && g_l != g_r && !g_missing) \
  __CPROVER_requires((in_l ==> g_szl >= 1) && (in_r ==> g_szr >= 1)) \
  __CPROVER_assigns(MG) \
  __CPROVER_ensures(__CPROVER_return_value ==> (g_szl == g_szr && g_szl != 0 && (in_l ==> in_r))) \
  __CPROVER_ensures(!__CPROVER_return_value ==> (g_szl != g_szr || g_szl == 0 || g_missing))
#define LOOPASG_AREEQ__L_ELEMS , MG
#define LOOP_AREEQ__L_ELEMS \
  __CPROVER_loop_invariant(END_AREEQ__L_ELEMS.f0.f0 == 0 && !g_missing) \
  __CPROVER_loop_invariant((in_l && BEGIN_AREEQ__L_ELEMS.f0.f0 == 0) ==> seen) \
  __CPROVER_loop_invariant((in_l && seen) ==> in_r)
/* insert(key, value): the reference returned denotes a macro-state with the content of `value`, stored in the list under `key`:
   either an element of that list which the closure found equal (nothing is added), or the copy of `value` just appended to it. */
#define CONTENT(o) (((uint64_t*)(o))[0])
MSC* g_msc; SS* g_value; uint64_t g_key0, g_cv0, g_pushes, g_push_content; _Bool g_hit, g_new_entry;
E_CM cell_entry; SS cell_el, cell_back;
#define IG g_pushes, g_push_content, g_hit, g_new_entry, cell_entry, cell_el, cell_back
#define CONTRACT_MSC_INSERT \
  __CPROVER_requires(v_this == g_msc && v_value == g_value && v_key == g_key0 && CONTENT(g_value) == g_cv0 && g_pushes == 0 && !g_new_entry) \
  __CPROVER_assigns(IG) \
  __CPROVER_ensures(CONTENT(__CPROVER_return_value) == g_cv0 && CONTENT(g_value) == g_cv0) \
  __CPROVER_ensures(__CPROVER_return_value == &cell_back ? g_pushes == 1 : (g_pushes == 0 && __CPROVER_return_value == &cell_el && g_hit)) \
  __CPROVER_ensures(g_new_entry == !g_hit)
#define LOOPASG_MSC_INSERT__L_SETS , cell_el
#define LOOP_MSC_INSERT__L_SETS __CPROVER_loop_invariant(END_MSC_INSERT__L_SETS.f0 == 0 && g_pushes == 0)
