#define CANARY(n) __CPROVER_assert(0, "canary: " n " reaches the end (must FAIL)")
#define TOK ((void*)(uintptr_t)8)
#define MAYBE (nondet_bool() ? TOK : (void*)0)
_Bool nondet_bool(void); uint64_t nondet_u64(void);
uint64_t USET_SIZE(void* s) { __CPROVER_assert(s == g_l || s == g_r, "size() of one of the two operands"); return s == g_l ? g_szl : g_szr; }
void* USET_BEGIN(void* s) { __CPROVER_assert(s == g_l, "the elements of lss are traversed"); seen = 0; return in_l ? TOK : (g_szl == 0 ? (void*)0 : MAYBE); }
void* USET_END(void* s) { return (void*)0; }
uint64_t* USI_DEREF(void* it_) { USI* it = (USI*)it_; __CPROVER_assert(it->f0.f0 != 0, "no dereference of an end iterator"); _Bool c = in_l && nondet_bool() && !seen; if (c) seen = 1;
  cell_e = nondet_u64(); if (c) cell_e = w; else __CPROVER_assume(!in_l || cell_e != w); return &cell_e; }
void* USI_INC(void* it_) { USI* it = (USI*)it_; it->f0.f0 = MAYBE; __CPROVER_assume(it->f0.f0 != 0 || !in_l || seen); return it; }
uint64_t USET_COUNT(void* s, uint64_t* x) { __CPROVER_assert(s == g_r, "membership is asked of rss"); _Bool r = (*x == w) ? in_r : nondet_bool(); if (!r) g_missing = 1; return r; }
void h_AREEQ(void) { g_l = malloc(56); g_r = malloc(56); __CPROVER_assume(g_l && g_r); g_missing = 0;
  __CPROVER_assume((!in_l || g_szl >= 1) && (!in_r || g_szr >= 1));
  void* cl = malloc(1); _Bool r = AREEQ(cl, g_l, g_r); CANARY("h_AREEQ"); }
/* ---- MacroStateCache::insert ---- */
#ifdef STUB_AREEQ
_Bool AREEQ(CL_AE* cl, SS* l, SS* r) { __CPROVER_assert(r == g_value && l == &cell_el, "a cached set is compared with the value to intern"); _Bool e = nondet_bool(); __CPROVER_assume(!e || CONTENT(l) == CONTENT(r)); return e; }
#endif
void* CM_FIND(void* m, uint64_t* k) { __CPROVER_assert(m == (void*)&g_msc->f0 && *k == g_key0, "look-up of the key in the cache map"); g_hit = nondet_bool(); return g_hit ? TOK : (void*)0; }
void* CM_END(void* m) { return (void*)0; }
void LIST_CTOR(void* l) { } void LIST_DTOR(void* l) { } void PAIR_DTOR(void* p) { } void USET_DTOR(void* s) { }
void MKPAIR(void* ret, uint64_t* k, void* l) { ((PAIR_KL*)ret)->f0 = *k; }
CM_INSRET CM_INSERT(void* m, void* kv) { __CPROVER_assert(m == (void*)&g_msc->f0 && ((PAIR_KL*)kv)->f0 == g_key0 && !g_hit, "a new (empty) list is stored under the key only when the key is absent"); g_new_entry = 1; CM_INSRET r; r.f0 = TOK; r.f1 = 1; return r; }
void* CM_ARROW(void* it) { __CPROVER_assert(((void**)it)[0] != 0 && (g_hit || g_new_entry), "-> on the entry found / inserted"); cell_entry.f0 = g_key0; return &cell_entry; }
void USET_COPY(void* d, void* s) { CONTENT(d) = CONTENT(s); }
void LIST_PUSH(void* l, void* s) { __CPROVER_assert(l == (void*)&cell_entry.f1 && g_pushes == 0, "one copy is appended to the list stored under the key"); g_pushes++; g_push_content = CONTENT(s); }
void* LIST_BACK(void* l) { __CPROVER_assert(l == (void*)&cell_entry.f1 && g_pushes == 1, "back() of the list just appended to"); CONTENT(&cell_back) = g_push_content; return &cell_back; }
void* LIST_BEGIN(void* l) { __CPROVER_assert(l == (void*)&cell_entry.f1 && g_hit, "traversal of the list stored under the key"); return MAYBE; }
void* LIST_END(void* l) { return (void*)0; }
void* LI_DEREF(void* it_) { LI* it = (LI*)it_; __CPROVER_assert(it->f0 != 0, "no dereference of an end iterator"); CONTENT(&cell_el) = nondet_u64(); return &cell_el; }
void* LI_INC(void* it_) { LI* it = (LI*)it_; it->f0 = MAYBE; return it; }
void h_MSC_INSERT(void) { g_msc = malloc(sizeof *g_msc); g_value = malloc(sizeof *g_value); __CPROVER_assume(g_msc && g_value); g_cv0 = CONTENT(g_value); g_pushes = 0; g_new_entry = 0;
  SS* r = MSC_INSERT(g_msc, g_key0, g_value); CANARY("h_MSC_INSERT"); }
