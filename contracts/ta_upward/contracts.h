/* Unit ta_upward (DESIGN.md 5-C04, 11): ExplicitTreeAutCore::TranslateUpward -- the encoding of a tree automaton as an LTS for the upward simulation.
   PROVENANCE of everything put into the LTS / the initial partition, for automata of any size (uninterpreted: IDXF the state index functor, SYMTF the symbol
   translator, CHILDF(tuple, k) the k-th child, the environment translator as an arbitrary function of the environment built):
   (T1) partition: IDXF(parent under the cursor) goes to class 0 if the state is final, else to class base-2; the leaf pseudo-state (= number of rule owners) to class base-1; indices within the resized partition;
   (T2) a leaf rule a -> q gives the edge (leaf pseudo-state, SYMTF(a), IDXF(q));  a unary rule a(p) -> q gives (IDXF(p), SYMTF(a), IDXF(q));
   (T3) an n-ary rule gives, for the position i in hand, the edge (IDXF(child i), ENV-SYMBOL, envTranslator(Env(tuple, i, SYMTF(a), IDXF(q)))) where ENV-SYMBOL is the
        value of the symbol counter (one past the translated symbols);  the child read is within the tuple (C20);
   (T4) every environment node E recorded in envMap gets the edge (index of E, E.symbol_, E.state_): E.state_ IS ALREADY the LTS index of the rule's parent (T3) and must be used as it is;
   (T5) the initial relation is written only inside its resized bounds (base + |head| classes).
   Completeness (that every rule produces its edges) is not decided here. */
#define SP_PTR(sp) ((sp)->f0.f0)
AUT* g_this; void *g_lts, *g_part, *g_rel, *g_index, *g_param, *m_src, *g_head, *g_envmap, *g_envtw, *g_symtw; uint64_t* g_symcnt_ptr;
uint8_t g_phase; uint64_t g_base, g_nown, g_nhead, g_cq, g_state_idx, g_cur_sym, g_sym_idx, g_tid, g_tsize, g_last_pos, g_env_idx, g_vv_idx, g_relsize; _Bool g_isf, g_env_built;
uint64_t cell_child, cell_vec[3]; E_CMAP cell_cm; E_CLU cell_clu; SPV cell_tup; E_ENVMAP cell_env; void* cell_headp;
#define G_POS    cell_child, g_last_pos, g_env_idx, g_env_built
#define G_TUPLES G_POS, g_tid, g_tsize, cell_tup
#define G_SYMS2  G_TUPLES, g_cur_sym, g_sym_idx, cell_clu
#define G_OWN2   G_SYMS2, g_cq, g_state_idx, cell_cm
#define G_SYMS1  g_cur_sym, g_sym_idx, cell_clu
#define G_OWN1   G_SYMS1, g_cq, g_state_idx, cell_cm, g_isf, g_vv_idx
#define G_ENVS   cell_env
#define G_HEAD   cell_headp
#define CONTRACT_TUP \
  __CPROVER_requires(v_this == g_this && v_agg_result == g_lts && v_partition == g_part && v_relation == g_rel && v_param == g_param && v_stateIndex == g_index && g_phase == 0) \
  __CPROVER_assigns(G_OWN1, G_OWN2, G_ENVS, G_HEAD, g_phase, g_base, g_head, g_envmap, g_envtw, g_symtw, g_symcnt_ptr, g_relsize) \
  __CPROVER_ensures(g_phase == 5)
#define CTX(p) (g_phase == (p) && (g_base == 2 || g_base == 3) && g_head == (void*)&v_head_slot && g_envmap == (void*)&v_envMap_slot && g_envtw == (void*)&v_envTranslator_slot && g_symtw == (void*)&v_symbolTranslator_slot && g_symcnt_ptr == &v_symbolCnt_slot && v_base_slot == g_base)
#define LOOPASG_TUP__L_OWNERS1 , G_OWN1
#define LOOP_TUP__L_OWNERS1 __CPROVER_loop_invariant(END_TUP__L_OWNERS1.f0.f0 == 0 && CTX(1))
#define LOOPASG_TUP__L_SYMS1 , G_SYMS1
#define LOOP_TUP__L_SYMS1 __CPROVER_loop_invariant(END_TUP__L_SYMS1.f0.f0 == 0 && CTX(1))
#define LOOPASG_TUP__L_OWNERS2 , G_OWN2
#define LOOP_TUP__L_OWNERS2 __CPROVER_loop_invariant(END_TUP__L_OWNERS2.f0.f0 == 0 && CTX(2))
#define LOOPASG_TUP__L_SYMS2 , G_SYMS2
#define LOOP_TUP__L_SYMS2 __CPROVER_loop_invariant(END_TUP__L_SYMS2.f0.f0 == 0 && CTX(2) && v_state_slot == g_state_idx)
#define LOOPASG_TUP__L_TUPLES , G_TUPLES
#define LOOP_TUP__L_TUPLES __CPROVER_loop_invariant(END_TUP__L_TUPLES.f0 == 0 && CTX(2) && v_state_slot == g_state_idx && v_symbol_slot == g_sym_idx)
#define LOOPASG_TUP__L_POS , G_POS
#define LOOP_TUP__L_POS __CPROVER_loop_invariant(CTX(2) && v_state_slot == g_state_idx && v_symbol_slot == g_sym_idx && g_tsize >= 2 && IVAR_TUP__L_POS <= g_tsize && SP_PTR(v_tuple_slot) == (void*)8)
#define LOOPASG_TUP__L_ENVS , G_ENVS
#define LOOP_TUP__L_ENVS __CPROVER_loop_invariant(END_TUP__L_ENVS.f0.f0 == 0 && CTX(3))
#define LOOPASG_TUP__L_HEADI , G_HEAD
#define LOOP_TUP__L_HEADI __CPROVER_loop_invariant(CTX(4) && g_relsize == g_base + g_nhead && IVAR_TUP__L_HEADI <= g_nhead)
#define LOOPASG_TUP__L_HEADJ , G_HEAD
#define LOOP_TUP__L_HEADJ __CPROVER_loop_invariant(CTX(4) && g_relsize == g_base + g_nhead && IVAR_TUP__L_HEADI < g_nhead && IVAR_TUP__L_HEADJ <= g_nhead)
