#define CANARY(n) __CPROVER_assert(0, "canary: " n " reaches the end (must FAIL)")
#define TOK ((void*)(uintptr_t)8)
#define MAYBE (nondet_bool() ? TOK : (void*)0)
_Bool nondet_bool(void); uint64_t nondet_u64(void);
uint64_t __CPROVER_uninterpreted_IDXF(uint64_t s); uint64_t __CPROVER_uninterpreted_SYMTF(uint64_t a); uint64_t __CPROVER_uninterpreted_CHILDF(uint64_t t, uint64_t k); uint64_t __CPROVER_uninterpreted_FIN(uint64_t s);
#define IDXF(s) __CPROVER_uninterpreted_IDXF(s)
uint64_t CMAP_SIZE(void* m) { __CPROVER_assert(m == m_src, "number of rule owners of *this"); return g_nown; }
uint64_t USET_SIZE(void* s) { return nondet_u64(); }
void UMAP_CTOR(void* m) { } void UMAP_DTOR(void* m) { } void ENVMAP_CTOR(void* m) { g_envmap = m; } void ENVMAP_DTOR(void* m) { } void HEAD_CTOR(void* h) { g_head = h; } void HEAD_DTOR(void* h) { }
void FUNC1_DTOR(void* f) { } void FUNC2_DTOR(void* f) { } void TW2E_DTOR(void* t) { } void TW2S_DTOR(void* t) { } void LTS_DTOR(void* l) { __CPROVER_assert(0, "the LTS returned is not destroyed"); }
void VV_CLEAR(void* v) { __CPROVER_assert(v == g_part && g_phase == 0, "the partition passed in is cleared first"); }
void VV_RESIZE(void* v, uint64_t n) { __CPROVER_assert(v == g_part && (n == 2 || n == 3), "the partition starts with 2 or 3 classes"); g_base = n; g_phase = 1; }
void FUNC1_CTOR(void* f, void* closure) { g_symcnt_ptr = ((uint64_t**)closure)[0]; }      /* [&symbolCnt] */
void TW2S_CTOR(void* tw, void* map, void* f) { g_symtw = tw; }
void FUNC2_CTOR(void* f, void* closure) { }
void TW2E_CTOR(void* tw, void* map, void* f) { __CPROVER_assert(map == g_envmap, "the environment translator works on envMap"); g_envtw = tw; }
/* ---- traversals (T1 only: provenance) ---- */
void* CMAP_BEGIN(void* m) { __CPROVER_assert(m == m_src, "traversal of the cluster map of *this"); return MAYBE; }
void* CMAP_END(void* m) { return (void*)0; }
void* CMAP_DEREF(void* it_) { CMI* it = (CMI*)it_; __CPROVER_assert(it->f0.f0 != 0, "no dereference of an end iterator"); g_cq = nondet_u64(); g_state_idx = IDXF(g_cq); cell_cm.f0 = g_cq; SP_PTR(&cell_cm.f1) = TOK; return &cell_cm; }
void* CMAP_INC(void* it_) { CMI* it = (CMI*)it_; it->f0.f0 = MAYBE; return it; }
void* CLU_BEGIN(void* c) { return MAYBE; } void* CLU_END(void* c) { return (void*)0; }
void* CLU_DEREF(void* it_) { CLI* it = (CLI*)it_; __CPROVER_assert(it->f0.f0 != 0, "no dereference of an end iterator"); g_cur_sym = nondet_u64(); cell_clu.f0 = g_cur_sym; SP_PTR(&cell_clu.f1) = TOK; return &cell_clu; }
void* CLU_INC(void* it_) { CLI* it = (CLI*)it_; it->f0.f0 = MAYBE; return it; }
void* TSET_BEGIN(void* t) { return MAYBE; } void* TSET_END(void* t) { return (void*)0; }
void* RBI_DEREF(void* it_) { RBI* it = (RBI*)it_; __CPROVER_assert(it->f0 != 0, "no dereference of an end iterator"); g_tid = nondet_u64(); g_tsize = nondet_u64(); SP_PTR(&cell_tup) = TOK; g_env_built = 0; return &cell_tup; }
void* RBI_INC(void* it_) { RBI* it = (RBI*)it_; it->f0 = MAYBE; return it; }
/* ---- phase 1: the initial partition ---- */
_Bool ISF(void* a, uint64_t* x) { __CPROVER_assert(a == (void*)g_this && *x == g_cq, "finality of the parent under the cursor"); g_isf = __CPROVER_uninterpreted_FIN(*x) != 0; return g_isf; }
void* VV_AT(void* v, uint64_t k) { __CPROVER_assert(v == g_part && k < g_base, "C20: the partition is indexed within its base classes"); g_vv_idx = k; return &cell_vec; }
uint64_t IDX_AT(void* ix, uint64_t* s) { __CPROVER_assert(ix == g_index, "the state index functor passed in"); return IDXF(*s); }
void VEC_PUSH_RV(void* v, uint64_t* x) { __CPROVER_assert(v == (void*)&cell_vec && g_phase == 1, "pushes go to a class of the partition, before the LTS is built");
  if (g_vv_idx == g_base - 1) __CPROVER_assert(*x == g_nown, "C04: the last base class holds the leaf pseudo-state");
  else __CPROVER_assert(*x == IDXF(g_cq) && g_vv_idx == (g_isf ? 0 : g_base - 2), "C04: the parent under the cursor goes, by its index, to the final / non-final class"); }
uint64_t SYM_TRANSL(void* tw, uint64_t* a) { __CPROVER_assert(tw == g_symtw && *a == g_cur_sym, "the symbol under the cursor is translated"); g_sym_idx = __CPROVER_uninterpreted_SYMTF(*a); return g_sym_idx; }
/* ---- phase 2: the edges of the rules ---- */
void LTS_CTOR(void* l, uint64_t n) { __CPROVER_assert(l == g_lts && g_phase == 1, "the LTS is constructed once, in the result object"); g_phase = 2; }
_Bool VEC_EMPTY(void* v) { __CPROVER_assert(v == TOK, "the tuple under the cursor"); return g_tsize == 0; }
uint64_t VEC_SIZE(void* v) { __CPROVER_assert(v == TOK, "the tuple under the cursor"); return g_tsize; }
uint64_t* VEC_AT(void* v, uint64_t k) { __CPROVER_assert(v == TOK && k < g_tsize, "C20: a child is read within the tuple"); g_last_pos = k; cell_child = __CPROVER_uninterpreted_CHILDF(g_tid, k); return &cell_child; }
void ENV_CTOR(void* e, void* tup, uint64_t i, uint64_t sym, uint64_t st) { __CPROVER_assert(tup == TOK && i == g_last_pos && sym == g_sym_idx && st == g_state_idx, "C04: the environment is (tuple, position in hand, translated symbol, LTS index of the parent)");
  ((ENV*)e)->f1 = i; ((ENV*)e)->f2 = sym; ((ENV*)e)->f3 = st; g_env_built = 1; }
void ENV_DTOR(void* e) { }
uint64_t ENV_TRANSL(void* tw, void* e) { __CPROVER_assert(tw == g_envtw && g_env_built, "the environment just built is translated"); g_env_idx = nondet_u64(); return g_env_idx; }
void ADDT(void* l, uint64_t from, uint64_t sym, uint64_t to) { __CPROVER_assert(l == g_lts, "edges go into the LTS returned");
  if (g_phase == 2) {
    if (g_tsize == 0) __CPROVER_assert(from == g_nown && sym == g_sym_idx && to == g_state_idx, "C04: a leaf rule gives (leaf pseudo-state, symbol, parent)");
    else if (g_tsize == 1) __CPROVER_assert(from == IDXF(__CPROVER_uninterpreted_CHILDF(g_tid, 0)) && sym == g_sym_idx && to == g_state_idx, "C04: a unary rule gives (child, symbol, parent)");
    else __CPROVER_assert(from == IDXF(__CPROVER_uninterpreted_CHILDF(g_tid, g_last_pos)) && sym == *g_symcnt_ptr && to == g_env_idx && g_env_built, "C04: an n-ary rule gives (child i, environment symbol, environment node of position i)"); }
  else { __CPROVER_assert(g_phase == 3, "edges are added while the rules / the environments are traversed");
    __CPROVER_assert(from == cell_env.f1 && sym == cell_env.f0.f2 && to == cell_env.f0.f3, "C04: an environment node gives (its index, its symbol, its recorded parent -- which already is an LTS index)"); } }
/* ---- phase 3: the environment nodes ---- */
void* ENVMAP_BEGIN(void* m) { __CPROVER_assert(m == g_envmap && g_phase == 2, "the environments recorded are traversed after the rules"); g_phase = 3; return MAYBE; }
void* ENVMAP_END(void* m) { return (void*)0; }
void* EMI_DEREF(void* it_) { EMI* it = (EMI*)it_; __CPROVER_assert(it->f0.f0 != 0, "no dereference of an end iterator"); cell_env.f0.f1 = nondet_u64(); cell_env.f0.f2 = nondet_u64(); cell_env.f0.f3 = nondet_u64(); cell_env.f1 = nondet_u64(); return &cell_env; }
void* EMI_INC(void* it_) { EMI* it = (EMI*)it_; it->f0.f0 = MAYBE; return it; }
/* ---- phase 4: the initial relation ---- */
uint64_t VV_SIZE(void* v) { __CPROVER_assert(v == g_part && g_phase == 3, "size of the partition after the environments"); g_phase = 4; g_relsize = g_base + g_nhead; return g_relsize; }
void REL_RESIZE(void* r, uint64_t n, _Bool d) { __CPROVER_assert(r == g_rel && n == g_relsize, "the relation gets one row per class"); }
void REL_RESET(void* r, _Bool d) { __CPROVER_assert(r == g_rel && !d, "the relation starts empty"); }
void REL_SET(void* r, uint64_t a, uint64_t b, _Bool x) { __CPROVER_assert(r == g_rel && g_phase == 4 && a < g_relsize && b < g_relsize, "C20: the initial relation is written within its bounds"); }
uint64_t HEAD_SIZE(void* h) { __CPROVER_assert(h == g_head, "the environment classes"); return g_nhead; }
ENV** HEAD_AT(void* h, uint64_t i) { __CPROVER_assert(h == g_head && i < g_nhead, "C20: head is indexed within its size"); cell_headp = TOK; return (ENV**)&cell_headp; }
_Bool ENV_LESSTHAN(void* a, void* b, void* param) { __CPROVER_assert(a == TOK && b == TOK && param == g_param, "environment classes are compared under the relation passed in"); return nondet_bool(); }
void LTS_INIT(void* l) { __CPROVER_assert(l == g_lts && g_phase == 4, "the LTS is initialised last"); g_phase = 5; }
void h_TUP(void) { g_this = malloc(sizeof *g_this); m_src = malloc(64); g_lts = malloc(64); g_part = malloc(24); g_rel = malloc(56); g_param = malloc(8); g_index = malloc(48);
  __CPROVER_assume(g_this && m_src && g_lts && g_part && g_rel && g_param && g_index); SP_PTR(&g_this->f2) = m_src; g_phase = 0; __CPROVER_assume(g_nhead < UINT64_MAX - 3 && g_nown < UINT64_MAX);
  TUP(g_lts, g_this, g_part, g_rel, g_param, g_index); CANARY("h_TUP"); }
