/* Unit lts_split (DESIGN.md 5-C16, 11): SimulationEngine::split(removeMask, remove) -- the blocks touched by a Remove set are split; the
   part that is split off becomes a NEW block that must inherit everything pending for the block it came from.  Witness block wB (in
   modifiedBlocks iff has_b), witness label wa:
     has_b ==> trySplit was called on wB exactly once
     has_b && !split_w ==> removeMask[wB->index_] = true                                   (the whole block is in the Remove set)
     has_b &&  split_w ==> a block nbW was constructed from (lts_, *wB, the list and size trySplit returned, index = partition_.size()),
                           appended to partition_ at that index, relation_.split(wB->index_), removeMask[nbW->index_] = true,
                           nbW->counter_.copyLabels(nbW->inset_, wB->counter_), and for the witness label:
                           wa in nbW->inset_ && wB->remove_[wa] != null  ==>  (nbW, wa) queued && nbW->remove_[wa] == wB->remove_[wa]->copy()
   Call-site obligations: the labels traversed are those of the NEW block's inset; only (new block, label under the cursor) with a pending
   Remove of the parent is queued; C20: removeMask indexed below lts.states(), remove_ below lts.labels(). */
ENG* g_this; void *g_rmask, *g_remove, *g_lts, *g_mb; BLOCK *wB, *bO, *nbW, *nbO; BLOCK* cell_mb;
uint64_t g_N0, g_N, g_R, g_S, g_L, wbi, wa; _Bool has_b, split_w, has_a; void *g_rm_w, *g_copy_w;
_Bool g_isplit, seen_b, cur_b; uint64_t tried_w; void *g_try_first; uint64_t g_try_second; _Bool g_try_valid;
_Bool rm_old, rm_new, ctor_w, pushed_w, relsplit_w, copied_w, queued_w; uint64_t g_nbw_idx; void *g_parent, *g_new; _Bool g_new_valid, g_new_pushed;
_Bool has_cur_a, seen_a, cur_a, g_rm_nonnull; uint64_t cell_a; void *cell_rm_par, *cell_rm_nbw, *cell_rm_oth, *g_rm_read; uint64_t g_rm_read_a;
#define BEQ(a, b) (!(a) == !(b))
#define DONE_NOSPLIT (rm_old)
#define DONE_SPLIT   (ctor_w && pushed_w && relsplit_w && rm_new && copied_w && g_nbw_idx < g_N && nbW->f0 == g_nbw_idx)
#define DONE_LABEL   ((has_a && g_rm_w != 0) ==> (queued_w && cell_rm_nbw == g_copy_w))
#define DONE_W       (tried_w == 1 && (!split_w ==> DONE_NOSPLIT) && (split_w ==> (DONE_SPLIT && DONE_LABEL)))
#define SIZES        (g_N0 <= g_N && g_N <= g_S && g_R <= g_N)
#define G_LABELS seen_a, cur_a, cell_a, cell_rm_par, cell_rm_nbw, cell_rm_oth, g_rm_read, g_rm_read_a, g_rm_nonnull, queued_w
#define G_BLOCKS G_LABELS, seen_b, cur_b, cell_mb, tried_w, g_try_first, g_try_second, g_try_valid, rm_old, rm_new, ctor_w, pushed_w, relsplit_w, copied_w, g_nbw_idx, g_parent, g_new, g_new_valid, g_new_pushed, \
                 has_cur_a, g_N, g_R, bO->f0, nbW->f0, nbO->f0
#define CONTRACT_SPLIT \
  __CPROVER_requires(v_this == g_this && v_removeMask == g_rmask && v_remove == g_remove && !g_isplit && tried_w == 0 && g_N == g_N0 && SIZES && wbi < g_N0) \
  __CPROVER_requires(!rm_old && !rm_new && !ctor_w && !pushed_w && !relsplit_w && !copied_w && !queued_w && !g_new_valid && !g_try_valid && cell_rm_nbw == 0) \
  __CPROVER_assigns(G_BLOCKS, g_isplit, g_mb) \
  __CPROVER_ensures(g_isplit && SIZES) \
  __CPROVER_ensures(has_b ==> DONE_W) \
  __CPROVER_ensures(!has_b ==> tried_w == 0)
#define LOOPASG_SPLIT__L_BLOCKS , G_BLOCKS
#define LOOP_SPLIT__L_BLOCKS \
  __CPROVER_loop_invariant(END_SPLIT__L_BLOCKS.f0 == 0 && (seen_b ==> has_b) && SIZES && wB->f0 == wbi && g_isplit) \
  __CPROVER_loop_invariant((has_b && BEGIN_SPLIT__L_BLOCKS.f0 == 0) ==> seen_b) \
  __CPROVER_loop_invariant((has_b && seen_b) ==> DONE_W) \
  __CPROVER_loop_invariant(!seen_b ==> (tried_w == 0 && !rm_old && !rm_new && !ctor_w && !pushed_w && !relsplit_w && !copied_w && !queued_w && cell_rm_nbw == 0))
#define LOOPASG_SPLIT__L_LABELS , G_LABELS
#define LOOP_SPLIT__L_LABELS \
  __CPROVER_loop_invariant(END_SPLIT__L_LABELS.f0 == 0 && v_newBlock_slot == (BLOCK*)g_new && g_new_valid && g_new_pushed && (g_new == (void*)nbW || g_new == (void*)nbO) && BEQ(g_new == (void*)nbW, g_parent == (void*)wB)) \
  __CPROVER_loop_invariant(BEQ(has_cur_a, g_new == (void*)nbW && has_a)) \
  __CPROVER_loop_invariant((has_cur_a && BEGIN_SPLIT__L_LABELS.f0 == 0) ==> seen_a) \
  __CPROVER_loop_invariant((has_cur_a && seen_a) ==> DONE_LABEL) \
  __CPROVER_loop_invariant((g_new != (void*)nbW) ==> (BEQ(queued_w, __CPROVER_loop_entry(queued_w)) && cell_rm_nbw == __CPROVER_loop_entry(cell_rm_nbw))) \
  __CPROVER_loop_invariant((g_new == (void*)nbW && !seen_a) ==> (!queued_w && cell_rm_nbw == 0))
/* fastSplit(remove) -- the initial refinement by outgoing labels: as split, without removeMask / counters / pending Removes (none exist yet) */
#define DONE_FW (tried_w == 1 && (split_w ==> (ctor_w && pushed_w && relsplit_w && g_nbw_idx < g_N && nbW->f0 == g_nbw_idx)))
#define G_FBLOCKS seen_b, cur_b, cell_mb, tried_w, g_try_first, g_try_second, g_try_valid, ctor_w, pushed_w, relsplit_w, g_nbw_idx, g_parent, g_new, g_new_valid, g_new_pushed, g_N, g_R, bO->f0, nbW->f0, nbO->f0
#define CONTRACT_FSPLIT \
  __CPROVER_requires(v_this == g_this && v_remove == g_remove && !g_isplit && tried_w == 0 && g_N == g_N0 && SIZES && wbi < g_N0 && !ctor_w && !pushed_w && !relsplit_w && !g_new_valid && !g_try_valid) \
  __CPROVER_assigns(G_FBLOCKS, g_isplit, g_mb) \
  __CPROVER_ensures(g_isplit && SIZES) \
  __CPROVER_ensures(has_b ==> DONE_FW) \
  __CPROVER_ensures(!has_b ==> tried_w == 0)
#define LOOPASG_FSPLIT__L_BLOCKS , G_FBLOCKS
#define LOOP_FSPLIT__L_BLOCKS \
  __CPROVER_loop_invariant(END_FSPLIT__L_BLOCKS.f0 == 0 && (seen_b ==> has_b) && SIZES && wB->f0 == wbi && g_isplit) \
  __CPROVER_loop_invariant((has_b && BEGIN_FSPLIT__L_BLOCKS.f0 == 0) ==> seen_b) \
  __CPROVER_loop_invariant((has_b && seen_b) ==> DONE_FW) \
  __CPROVER_loop_invariant(!seen_b ==> (tried_w == 0 && !ctor_w && !pushed_w && !relsplit_w))
