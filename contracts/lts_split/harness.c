#define CANARY(n) __CPROVER_assert(0, "canary: " n " reaches the end (must FAIL)")
_Bool nondet_bool(void); uint64_t nondet_u64(void);
#define TOK ((void*)(uintptr_t)8)
#define MAYBE (nondet_bool() ? TOK : (void*)0)
#define TOKF ((void*)(uintptr_t)32)            /* a state list handed out by trySplit */
#define TOKRM ((void*)(uintptr_t)40)           /* some pending Remove list */
#define TOKCP ((void*)(uintptr_t)48)           /* some copy */
#define BIT_OLD ((uint64_t*)(uintptr_t)16)
#define BIT_NEW ((uint64_t*)(uintptr_t)24)
#define BIT_OTH ((uint64_t*)(uintptr_t)56)
typedef struct { void* p; } ITP;
void* VERIF_new(uint64_t n) { __CPROVER_assert(n == sizeof(BLOCK), "operator new for one Block"); return cur_b ? (void*)nbW : (void*)nbO; }
void VERIF_delete(void* p) { __CPROVER_assert(0, "no Block is deleted by split"); }
void MB_CTOR(void* v) { g_mb = v; } void MB_DTOR(void* v) { }
void ISPLIT(void* eng, void* mb, void* remove) { __CPROVER_assert(eng == (void*)g_this && mb == g_mb && remove == g_remove && !g_isplit, "internalSplit(modifiedBlocks, remove) once, before the blocks are visited"); g_isplit = 1; }
void ISPLIT_SS(void* eng, void* mb, void* remove) { ISPLIT(eng, mb, remove); }
BLOCK** MB_BEGIN(void* v) { __CPROVER_assert(v == g_mb && g_isplit, "traversal of modifiedBlocks after internalSplit"); seen_b = 0; cur_b = 0; return has_b ? (BLOCK**)TOK : (BLOCK**)MAYBE; }
BLOCK** MB_END(void* v) { return (BLOCK**)0; }
BLOCK** NIB_DEREF(void* it) { __CPROVER_assert(((ITP*)it)->p != 0, "no dereference of the end iterator of modifiedBlocks");
  cur_b = has_b && nondet_bool() && !seen_b; if (cur_b) seen_b = 1;
  if (!cur_b) { bO->f0 = nondet_u64(); __CPROVER_assume(bO->f0 < g_N0 && bO->f0 != wbi); }     /* engine invariant: a block's index identifies it, below partition_.size() */
  cell_mb = cur_b ? wB : bO; g_try_valid = 0; g_new_valid = 0; return &cell_mb; }
void* NIB_INC(void* it) { ((ITP*)it)->p = MAYBE; __CPROVER_assume(((ITP*)it)->p != 0 || !has_b || seen_b); return it; }
TRY_RET TRY(void* b) { __CPROVER_assert(b == (void*)cell_mb && !g_try_valid, "trySplit on the block under the cursor, once");
  TRY_RET r; _Bool s = (b == (void*)wB) ? split_w : nondet_bool(); r.f0 = s ? TOKF : (void*)0; r.f1 = nondet_u64();
  if (s) __CPROVER_assume(g_N < g_S);        /* engine invariant: blocks are non-empty and disjoint, so a split leaves #blocks <= #states */
  if (b == (void*)wB) tried_w++; g_try_first = r.f0; g_try_second = r.f1; g_try_valid = 1; return r; }
BITREF_RET VB_AT(void* v, uint64_t i) { __CPROVER_assert(v == g_rmask && i < g_S, "C20: removeMask is indexed below the number of states");
  BITREF_RET r; r.f0 = (i == wbi) ? BIT_OLD : ((ctor_w && i == g_nbw_idx) ? BIT_NEW : BIT_OTH); r.f1 = 1; return r; }
void* BITREF_ASSIGN(void* r, _Bool b) { __CPROVER_assert(b, "split only sets bits of removeMask"); if (((BITREF*)r)->f0 == BIT_OLD) rm_old = 1; if (((BITREF*)r)->f0 == BIT_NEW) rm_new = 1; return r; }
uint64_t PART_SIZE(void* v) { __CPROVER_assert(v == (void*)&g_this->f5, "size of partition_"); return g_N; }
void BLK_CTOR(void* self, void* lts, void* parent, void* states, uint64_t size, uint64_t index) {
  __CPROVER_assert(lts == g_lts && parent == (void*)cell_mb && g_try_valid && g_try_first != 0 && states == g_try_first && size == g_try_second,
                   "C16: the new block is built from the block under the cursor and the list / size its trySplit returned");
  __CPROVER_assert(index == g_N && !g_new_valid, "C16: the new block gets the next free index (partition_.size())");
  __CPROVER_assert(self == (parent == (void*)wB ? (void*)nbW : (void*)nbO), "constructed in the cell operator new handed out");
  ((BLOCK*)self)->f0 = index; g_parent = parent; g_new = self; g_new_valid = 1; g_new_pushed = 0;
  if (parent == (void*)wB) { ctor_w = 1; g_nbw_idx = index; } }
void PART_PUSH(void* v, BLOCK** pb) { __CPROVER_assert(v == (void*)&g_this->f5 && g_new_valid && (void*)*pb == g_new && !g_new_pushed && (*pb)->f0 == g_N,
                   "C16: the new block is appended to partition_ at its own index");
  g_N++; g_new_pushed = 1; if (g_parent == (void*)wB) pushed_w = 1; }
uint64_t SR_SPLIT(void* rel, uint64_t i) { __CPROVER_assert(rel == (void*)&g_this->f6 && g_new_valid && i == ((BLOCK*)g_parent)->f0, "C16: the relation is split at the index of the block the new block came from");
  g_R++; if (g_parent == (void*)wB) relsplit_w = 1; return g_R - 1; }
void COPYL(void* cnt, void* labels, void* src) { __CPROVER_assert(g_new_valid && cnt == (void*)&((BLOCK*)g_new)->f4 && labels == (void*)&((BLOCK*)g_new)->f5 && src == (void*)&((BLOCK*)g_parent)->f4,
                   "C16: the new block's counter inherits, for the labels of the NEW block's inset, the rows of the block it came from");
  if (g_parent == (void*)wB) copied_w = 1; }
void* SS_BEGIN(void* s) { __CPROVER_assert(g_new_valid && s == (void*)&((BLOCK*)g_new)->f5, "C16: pending Removes are inherited for the labels of the NEW block's inset");
  has_cur_a = (g_new == (void*)nbW && has_a); seen_a = 0; cur_a = 0; return has_cur_a ? TOK : MAYBE; }
void* SS_END(void* s) { return (void*)0; }
_Bool SSI_NE(void* a, void* b) { return ((ITP*)a)->p != ((ITP*)b)->p; }
uint64_t* SSI_DEREF(void* it) { __CPROVER_assert(((ITP*)it)->p != 0, "no dereference of an end iterator");
  cur_a = has_cur_a && nondet_bool() && !seen_a; if (cur_a) seen_a = 1;
  cell_a = nondet_u64(); if (cur_a) cell_a = wa; else __CPROVER_assume(!(g_new == (void*)nbW) || cell_a != wa);
  __CPROVER_assume(cell_a < g_L); g_rm_read = 0; g_rm_read_a = cell_a; return &cell_a; }
void* SSI_INC(void* it) { ((ITP*)it)->p = MAYBE; __CPROVER_assume(((ITP*)it)->p != 0 || !has_cur_a || seen_a); return it; }
RM_RET RM_AT(void* v, uint64_t a) { __CPROVER_assert(a < g_L, "C20: remove_ is indexed below the number of labels");
  if (g_new_valid && v == (void*)&((BLOCK*)g_parent)->f3) {
    __CPROVER_assert(a == cell_a, "the parent's pending Remove for the label under the cursor");
    if (g_parent == (void*)wB && a == wa) cell_rm_par = g_rm_w; else if (g_rm_read_a != a || g_rm_read == 0) cell_rm_par = nondet_bool() ? TOKRM : (void*)0;
    g_rm_read = cell_rm_par ? cell_rm_par : (void*)0; g_rm_read_a = a; g_rm_nonnull = (cell_rm_par != 0); return (RM_RET)&cell_rm_par; }
  __CPROVER_assert(g_new_valid && v == (void*)&((BLOCK*)g_new)->f3 && a == cell_a, "remove_ of the parent or of the new block, for the label under the cursor");
  if (g_new == (void*)nbW && a == wa) return (RM_RET)&cell_rm_nbw; return (RM_RET)&cell_rm_oth; }
MKPAIR_RET MKPAIR(BLOCK** pb, uint64_t* pa) { MKPAIR_RET r; r.f0 = *pb; r.f1 = *pa; return r; }
void Q_PUSH(void* q, void* pr_) { QPAIR* pr = (QPAIR*)pr_; __CPROVER_assert(q == (void*)&g_this->f8, "queue_ of the engine");
  __CPROVER_assert(g_new_valid && (void*)pr->f0 == g_new && pr->f1 == cell_a && g_rm_nonnull && g_rm_read_a == cell_a, "C16: only (new block, label under the cursor) with a pending Remove of the parent is queued");
  if (g_new == (void*)nbW && pr->f1 == wa) queued_w = 1; }
void* SL_COPY(void* l) { __CPROVER_assert(l != 0 && l == g_rm_read && g_rm_read_a == cell_a, "copy() of the parent's pending Remove for the label under the cursor");
  return (g_parent == (void*)wB && cell_a == wa) ? g_copy_w : TOKCP; }
void h_FSPLIT(void);
void h_SPLIT(void) { g_this = malloc(sizeof *g_this); g_rmask = malloc(8); g_remove = malloc(8); g_lts = malloc(8); wB = malloc(sizeof *wB); bO = malloc(sizeof *bO); nbW = malloc(sizeof *nbW); nbO = malloc(sizeof *nbO);
  __CPROVER_assume(g_this && g_rmask && g_remove && g_lts && wB && bO && nbW && nbO);
  g_this->f0 = g_lts; wB->f0 = wbi; g_N = g_N0; __CPROVER_assume(SIZES && wbi < g_N0 && g_copy_w != 0 && (g_rm_w == 0 || g_rm_w == TOKRM));
  g_isplit = 0; tried_w = 0; rm_old = rm_new = ctor_w = pushed_w = relsplit_w = copied_w = queued_w = g_new_valid = g_try_valid = 0; cell_rm_nbw = 0;
  SPLIT(g_this, g_rmask, g_remove); CANARY("h_SPLIT"); }
void h_FSPLIT(void) { g_this = malloc(sizeof *g_this); g_remove = malloc(8); g_lts = malloc(8); wB = malloc(sizeof *wB); bO = malloc(sizeof *bO); nbW = malloc(sizeof *nbW); nbO = malloc(sizeof *nbO);
  __CPROVER_assume(g_this && g_remove && g_lts && wB && bO && nbW && nbO);
  g_this->f0 = g_lts; wB->f0 = wbi; g_N = g_N0; __CPROVER_assume(SIZES && wbi < g_N0);
  g_isplit = 0; tried_w = 0; ctor_w = pushed_w = relsplit_w = g_new_valid = g_try_valid = 0;
  FSPLIT(g_this, g_remove); CANARY("h_FSPLIT"); }
