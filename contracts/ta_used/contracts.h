/* Unit ta_used (DESIGN.md 5-C12): GetUsedStates = exactly the states occurring in rules or in the final set.
   COMPLETENESS by an arbitrary witness state ws that is used (as the parent of a witness rule, as a child of a witness rule, or as a
   final state -- g_mode picks which): it has been inserted into the result.  PROVENANCE: every insert into the result is of the child /
   parent / final state under the cursors.  The three loops are closed by the witness traversal invariants of DESIGN.md 3.2. */
uint64_t ws; uint8_t g_mode;              /* 0: parent of the witness rule, 1: child of the witness rule, 2: final state */
_Bool seen1, cur1, seen2, seen3, g_done;
uint64_t g_cur_parent, g_cur_child, g_cur_final; _Bool g_child_valid, g_parent_valid, g_final_valid;
void* g_res; uint64_t cell_child, cell_final;
#define HAS1 (g_mode != 2)
#define HAS2 (cur1 && g_mode == 1)
#define HAS3 (g_mode == 2)
#define U_GHOSTS seen1, cur1, seen2, seen3, g_done, g_cur_parent, g_cur_child, g_cur_final, g_child_valid, g_parent_valid, g_final_valid, g_res, cell_child, cell_final
#define TOK1(itv) ((uint64_t)(itv).f0.f3.f0)
#define CONTRACT_USED \
  __CPROVER_requires(!g_done && g_mode <= 2) \
  __CPROVER_assigns(U_GHOSTS) \
  __CPROVER_ensures(g_done)                                   /* the used witness state is in the result */
#define LOOPASG_USED__B_for_cond   , U_GHOSTS
#define LOOPASG_USED__B_for_cond11 , seen2, g_done, g_cur_child, g_child_valid, cell_child
#define LOOPASG_USED__B_for_cond38 , seen3, g_done, g_cur_final, g_final_valid, g_child_valid, g_parent_valid, cell_final
#define LOOP_USED__B_for_cond \
  __CPROVER_loop_invariant(TOK1(v___end1_slot) == 0 && g_res == (void*)v_agg_result) \
  __CPROVER_loop_invariant((HAS1 && TOK1(v___begin1_slot) == 0) ==> seen1) \
  __CPROVER_loop_invariant((HAS1 && seen1) ==> g_done)
#define LOOP_USED__B_for_cond11 \
  __CPROVER_loop_invariant(v___end2_slot.f0 == 0 && g_res == (void*)v_agg_result && g_parent_valid && v_trans_slot.f0 == g_cur_parent) \
  __CPROVER_loop_invariant((cur1 && g_mode == 0) ==> g_cur_parent == ws) \
  __CPROVER_loop_invariant((HAS2 && v___begin2_slot.f0 == 0) ==> seen2) \
  __CPROVER_loop_invariant((HAS2 && seen2) ==> g_done) \
  __CPROVER_loop_invariant((HAS1 && seen1 && !cur1) ==> g_done)
#define LOOP_USED__B_for_cond38 \
  __CPROVER_loop_invariant(v___end134_slot.f0.f0 == 0 && g_res == (void*)v_agg_result) \
  __CPROVER_loop_invariant(HAS1 ==> g_done) \
  __CPROVER_loop_invariant((HAS3 && v___begin130_slot.f0.f0 == 0) ==> seen3) \
  __CPROVER_loop_invariant((HAS3 && seen3) ==> g_done)
