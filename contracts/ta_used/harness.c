#define CANARY(n) __CPROVER_assert(0, "canary: " n " reaches the end (must FAIL)")
_Bool nondet_bool(void); uint64_t nondet_u64(void);
#define TOKEN(T) ((T)(uintptr_t)8)
#define MAYBE(T) (nondet_bool() ? TOKEN(T) : (T)0)
/* ---- the rule sequence of the automaton (witness traversal model) ---- */
void AUT_BEGIN(ITV* ret, AUT* a) { seen1 = 0; ret->f0.f3.f0 = HAS1 ? TOKEN(__typeof__(ret->f0.f3.f0)) : MAYBE(__typeof__(ret->f0.f3.f0)); }
void AUT_END(ITV* ret, AUT* a) { ret->f0.f3.f0 = 0; }
_Bool ITER_NE(BIT* a, BIT* b) { return a->f3.f0 != b->f3.f0; }
void ITER_DEREF(TRANS* t, BIT* it) { __CPROVER_assert(it->f3.f0 != 0, "no dereference of the end iterator of the automaton");
  _Bool w = HAS1 && nondet_bool() && !seen1; cur1 = w; if (w) seen1 = 1;
  uint64_t p = nondet_u64(); if (w && g_mode == 0) p = ws; t->f0 = p; g_cur_parent = p; g_parent_valid = 1; g_child_valid = 0; }
ITV* ITER_INC(ITV* it) { __CPROVER_assert(it->f0.f3.f0 != 0, "++ on a dereferenceable iterator of the automaton"); it->f0.f3.f0 = MAYBE(__typeof__(it->f0.f3.f0)); __CPROVER_assume(it->f0.f3.f0 != 0 || !HAS1 || seen1); return it; }
void TRANS_DTOR(TRANS* t) { }
/* ---- the child vector of the rule under the cursor ---- */
VPTR VEC_BEGIN(VEC* v) { seen2 = 0; return HAS2 ? TOKEN(VPTR) : MAYBE(VPTR); }
VPTR VEC_END(VEC* v) { return (VPTR)0; }
uint64_t* NIT_DEREF(NIT* it) { __CPROVER_assert(it->f0 != 0, "no dereference of the end iterator of a child vector");
  _Bool w = HAS2 && nondet_bool() && !seen2; if (w) seen2 = 1; cell_child = w ? ws : nondet_u64(); g_cur_child = cell_child; g_child_valid = 1; return &cell_child; }
NIT* NIT_INC(NIT* it) { __CPROVER_assert(it->f0 != 0, "++ on a dereferenceable child iterator"); it->f0 = MAYBE(VPTR); __CPROVER_assume(it->f0 != 0 || !HAS2 || seen2); return it; }
/* ---- the final-state set ---- */
HNF FSET_BEGIN(void* s) { seen3 = 0; g_parent_valid = 0; g_child_valid = 0; return HAS3 ? TOKEN(HNF) : MAYBE(HNF); }
HNF FSET_END(void* s) { return (HNF)0; }
uint64_t* FSET_DEREF(FI* it) { __CPROVER_assert(it->f0.f0 != 0, "no dereference of the end iterator of the final-state set");
  _Bool w = HAS3 && nondet_bool() && !seen3; if (w) seen3 = 1; cell_final = w ? ws : nondet_u64(); g_cur_final = cell_final; g_final_valid = 1; return &cell_final; }
FI* FSET_INC(FI* it) { __CPROVER_assert(it->f0.f0 != 0, "++ on a dereferenceable final-state iterator"); it->f0.f0 = MAYBE(HNF); __CPROVER_assume(it->f0.f0 != 0 || !HAS3 || seen3); return it; }
/* ---- the result set ---- */
void SET_NEW(SET* s) { g_res = s; }
void SET_DTOR(SET* s) { }
SET_INSRET SET_INSERT(SET* s, uint64_t* x) { __CPROVER_assert((void*)s == g_res, "C12 GetUsedStates: states are collected in the result set");
  __CPROVER_assert((g_child_valid && *x == g_cur_child) || (g_parent_valid && *x == g_cur_parent) || (g_final_valid && *x == g_cur_final), "C12 GetUsedStates: only a child / the parent of the rule under the cursor or the final state under the cursor is inserted");
  if (*x == ws) g_done = 1; SET_INSRET r; r.f1 = nondet_bool(); return r; }
void h_USED(void) { AUT* a = malloc(sizeof *a); SET* res = malloc(sizeof *res); __CPROVER_assume(a && res); g_done = 0; __CPROVER_assume(g_mode <= 2); g_parent_valid = g_child_valid = g_final_valid = 0; USED(res, a); CANARY("h_USED"); }
