#define CANARY(n) __CPROVER_assert(0, "canary: " n " reaches the end (must FAIL)")
uint64_t __CPROVER_uninterpreted_AF(uint64_t i); uint64_t __CPROVER_uninterpreted_BF(uint64_t i); uint64_t __CPROVER_uninterpreted_RELF(uint64_t x, uint64_t y);
uint64_t VEC_SIZE(void* v) { if (v == (void*)&g_a->f0) return g_sza; __CPROVER_assert(v == (void*)&g_b->f0, "size of the siblings of one of the two environments"); return g_szb; }
uint64_t* VEC_AT(void* v, uint64_t i) { if (v == (void*)&g_a->f0) { __CPROVER_assert(i < g_sza, "C20: a sibling of *this is read within its vector"); g_ia = i; cell_a = __CPROVER_uninterpreted_AF(i); return &cell_a; }
  __CPROVER_assert(v == (void*)&g_b->f0 && i < g_szb, "C20: a sibling of env is read within its vector"); g_ib = i; cell_b = __CPROVER_uninterpreted_BF(i); return &cell_b; }
static _Bool relq(void* r, uint64_t x, uint64_t y) { __CPROVER_assert(r == g_rel && g_ia == g_ib && x == __CPROVER_uninterpreted_AF(g_ia) && y == __CPROVER_uninterpreted_BF(g_ib), "C04: the relation is asked about the siblings at the SAME position, this one first");
  _Bool b = __CPROVER_uninterpreted_RELF(x, y) != 0; if (!b) g_fail = 1; if (g_ia == wk) g_rel_wk = b; return b; }
_Bool GET(void* r, uint64_t x, uint64_t y) { return relq(r, x, y); }
_Bool SYM(void* r, uint64_t x, uint64_t y) { return relq(r, x, y); }
static void setup(void) { g_a = malloc(sizeof *g_a); g_b = malloc(sizeof *g_b); g_rel = malloc(8); __CPROVER_assume(g_a && g_b && g_rel); g_fail = 0; }
void h_LESS(void) { setup(); _Bool r = LESS(g_a, g_b, g_rel); CANARY("h_LESS"); }
void h_EQUAL(void) { setup(); _Bool r = EQUAL(g_a, g_b, g_rel); CANARY("h_EQUAL"); }
