/* Unit ta_upward_env (DESIGN.md 5-C04, 11): Env::lessThan(env, rel) and Env::equal(env, rel) of the upward encoding -- two environments (rule, child position)
   are comparable iff they have the same number of siblings, the SAME position, the same symbol, and the siblings are pairwise related (rel.get resp. rel.sym):
     result true   ==>  sizes equal, index_ equal, symbol_ equal, and for an ARBITRARY witness position wk the siblings at wk are related;
     result false  ==>  one of the three scalars differs or some pair of siblings was found unrelated;   siblings are read within both vectors (C20). */
ENV *g_a, *g_b; void* g_rel; uint64_t g_sza, g_szb, wk, g_ia, g_ib, cell_a, cell_b; _Bool g_fail, g_rel_wk;
#define EG g_ia, g_ib, cell_a, cell_b, g_fail, g_rel_wk
#define ENVPOST \
  __CPROVER_ensures(__CPROVER_return_value ==> (g_sza == g_szb && g_a->f1 == g_b->f1 && g_a->f2 == g_b->f2 && (wk < g_sza ==> g_rel_wk))) \
  __CPROVER_ensures(!__CPROVER_return_value ==> (g_sza != g_szb || g_a->f1 != g_b->f1 || g_a->f2 != g_b->f2 || g_fail))
#define CONTRACT_LESS  __CPROVER_requires(v_this == g_a && v_env == g_b && v_rel == g_rel && !g_fail) __CPROVER_assigns(EG) ENVPOST
#define CONTRACT_EQUAL __CPROVER_requires(v_this == g_a && v_env == g_b && v_rel == g_rel && !g_fail) __CPROVER_assigns(EG) ENVPOST
#define LOOPASG_LESS__L_POS , EG
#define LOOP_LESS__L_POS  __CPROVER_loop_invariant(IVAR_LESS__L_POS <= g_sza && g_sza == g_szb && !g_fail && (wk < IVAR_LESS__L_POS ==> g_rel_wk))
#define LOOPASG_EQUAL__L_POS , EG
#define LOOP_EQUAL__L_POS __CPROVER_loop_invariant(IVAR_EQUAL__L_POS <= g_sza && g_sza == g_szb && !g_fail && (wk < IVAR_EQUAL__L_POS ==> g_rel_wk))
