#define CANARY(n) __CPROVER_assert(0, "canary: " n " reaches the end (must FAIL)")
_Bool nondet_bool(void); uint64_t nondet_u64(void);
#define TOK ((void*)(uintptr_t)8)
#define MAYBE (nondet_bool() ? TOK : (void*)0)
#define TOKV(i) ((void*)(uintptr_t)(((i) + 1) * 8))
#define IDXV(p) ((uint64_t)(uintptr_t)(p) / 8 - 1)
#define BIT_W ((uint64_t*)(uintptr_t)16)
#define BIT_O ((uint64_t*)(uintptr_t)24)
typedef struct { void* p; } ITP;
/* ---- the pending Remove list is taken and cleared ---- */
RM_RET RM_AT(void* v, uint64_t a) { __CPROVER_assert(v == (void*)&g_blk->f3 && a == g_label && g_step == 0, "C16: the pending Remove of (block, label) is read and cleared before anything else"); return (RM_RET)&cell_rm; }
void PL_CTOR(void* v) { g_prelist = v; } void PL_DTOR(void* v) { } void ALB_CTOR(void* a) { } void ALB_DTOR(void* a) { } void VB_DTOR(void* v) { }
uint64_t* LTS_STATES(void* l) { __CPROVER_assert(l == g_lts, "states() of the engine's system"); cell_S = g_S; return &cell_S; }
void VB_CTOR2(void* v, uint64_t n, void* al) { __CPROVER_assert(n == g_S, "C16/C20: removeMask has one bit per state (>= one per block)"); g_rmask = v; }
void BPRE(void* e, void* pl, void* st, uint64_t a) { __CPROVER_assert(e == (void*)g_this && pl == g_prelist && st == (void*)g_blk->f1 && a == g_label && g_step == 0 && cell_rm == 0,
   "C16: buildPre(preList, block->states_, label) runs first, on the block's state list as it is BEFORE the split, after the pending Remove was cleared"); g_step = 1; }
void SPLIT(void* e, void* rm, void* list) { __CPROVER_assert(e == (void*)g_this && rm == g_rmask && list == g_remove0 && g_step == 1, "C16: split(removeMask, the Remove list taken), after buildPre"); g_step = 2; }
void UNSAFE_REL(void* list, void* clo) { __CPROVER_assert(list == g_remove0 && g_step == 2, "the Remove list is released after the split used it"); g_step = 3; }
/* ---- predecessor blocks ---- */
BLOCK** PL_BEGIN(void* v) { __CPROVER_assert(v == g_prelist && g_step == 3, "traversal of preList after the split"); seen_b = 0; cur_b = 0; return has_b1 ? (BLOCK**)TOK : (BLOCK**)MAYBE; }
BLOCK** PL_END(void* v) { return (BLOCK**)0; }
BLOCK** NIB_DEREF(void* it) { __CPROVER_assert(((ITP*)it)->p != 0, "no dereference of the end iterator of preList"); cur_b = has_b1 && nondet_bool() && !seen_b; if (cur_b) seen_b = 1;
  if (!cur_b) { b1O->f0 = nondet_u64(); __CPROVER_assume(b1O->f0 < g_N && b1O->f0 != wb1i); }
  cell_b1 = cur_b ? b1W : b1O; has_c_cur = cur_b && has_c; return &cell_b1; }
void* NIB_INC(void* it) { ((ITP*)it)->p = MAYBE; __CPROVER_assume(((ITP*)it)->p != 0 || !has_b1 || seen_b); return it; }
/* ---- the row of b1 ---- */
ROWT SR_ROW(void* rel, uint64_t i) { __CPROVER_assert(rel == (void*)&g_this->f6 && i == cell_b1->f0 && i < g_N, "C16: the row of the predecessor block under the cursor"); ROWT r; r.f0 = 0; r.f1 = 0; return r; }
void ROW_BEGIN(void* it, void* row) { seen_c = 0; cur_c = 0; g_col_fresh = 1; g_cur_rm_valid = 0; g_erased_cur = 0; ((ITP*)it)->p = has_c_cur ? TOK : MAYBE; }
void ROW_END(void* it, void* row) { ((ITP*)it)->p = (void*)0; }
_Bool ITB_NE(void* a, void* b) { return ((ITP*)a)->p != ((ITP*)b)->p; }
void RIT_DTOR(void* it) { }
uint64_t* RIT_DEREF(void* it) { __CPROVER_assert(((ITP*)it)->p != 0, "no dereference of the end iterator of a row");
  if (g_col_fresh) { g_col_fresh = 0; cur_c = has_c_cur && nondet_bool() && !seen_c; if (cur_c) seen_c = 1;
    cell_col = nondet_u64(); if (cur_c) cell_col = wc; else __CPROVER_assume(!has_c_cur || cell_col != wc); __CPROVER_assume(cell_col < g_N && g_N <= g_S); }   /* relation invariant: columns below its size = partition_.size() <= states */
  return &cell_col; }
void* RIT_INC(void* it) { ((ITP*)it)->p = MAYBE; __CPROVER_assume(((ITP*)it)->p != 0 || !has_c_cur || seen_c); g_col_fresh = 1; g_cur_rm_valid = 0; g_erased_cur = 0; return it; }
BITREF_RET VB_AT(void* v, uint64_t i) { __CPROVER_assert(v == g_rmask && i < g_S && i == cell_col && !g_col_fresh, "C20: removeMask is read at the column under the cursor, below its size"); BITREF_RET r; r.f0 = (cur_b && i == wc) ? BIT_W : BIT_O; r.f1 = 1; return r; }
_Bool BITREF_BOOL(void* r) { g_cur_rm = (((BITREF*)r)->f0 == BIT_W) ? rm_wc : nondet_bool(); g_cur_rm_valid = 1; return g_cur_rm; }
void SR_ERASE(void* rel, void* it) { __CPROVER_assert(rel == (void*)&g_this->f6 && ((ITP*)it)->p != 0 && !g_col_fresh && g_cur_rm_valid && g_cur_rm && !g_erased_cur,
   "C16: only the entry (b1, col) under the cursors is erased, once, and only if removeMask[col] is set"); g_erased_cur = 1; if (cur_b && cur_c) erased_w = 1; }
BLOCK** PART_AT(void* v, uint64_t i) { __CPROVER_assert(v == (void*)&g_this->f5 && i == cell_col && i < g_N && g_erased_cur, "C20: partition_ is indexed by the erased column, below its size");
  nH->f0 = nondet_u64(); nH->f2 = nondet_bool() ? nG : nH; __CPROVER_assume(nH->f0 < g_S); cell_b2 = b2; return &cell_b2; }
/* ---- labels of the inset of b2 that are also in the inset of b1 ---- */
void* SS_BEGIN(void* s) { __CPROVER_assert(s == (void*)&b2->f5 && g_erased_cur, "the labels of the inset of the erased column's block"); g_cont_valid = 0; return MAYBE; }
void* SS_END(void* s) { return (void*)0; }
_Bool SSI_NE(void* a, void* b) { return ((ITP*)a)->p != ((ITP*)b)->p; }
uint64_t* SSI_DEREF(void* it) { __CPROVER_assert(((ITP*)it)->p != 0, "no dereference of an end iterator"); cell_a = nondet_u64(); __CPROVER_assume(cell_a < g_L); g_cont_valid = 0; return &cell_a; }
void* SSI_INC(void* it) { ((ITP*)it)->p = MAYBE; return it; }
_Bool SS_CONTAINS(void* s, uint64_t* a) { __CPROVER_assert(s == (void*)&cell_b1->f5 && *a == cell_a, "C16: the label under the cursor is looked up in the inset of b1"); g_cont = nondet_bool(); g_cont_valid = 1; return g_cont; }
/* ---- predecessors of the states of b2 ---- */
void* LTS_PRE(void* lts, uint64_t a) { __CPROVER_assert(lts == g_lts && a == cell_a && a < g_L, "C20: pre() for the label under the cursor, below the number of labels"); return g_prevv; }
void* VVC_AT(void* vv, uint64_t i) { __CPROVER_assert(vv == g_prevv && i < g_S, "C20: pre(a) is indexed below the number of states"); return TOKV(i); }
uint64_t* VC_BEGIN(void* vec) { return (uint64_t*)MAYBE; }
uint64_t* VC_END(void* vec) { return (uint64_t*)0; }
uint64_t* CNI_DEREF(void* it) { __CPROVER_assert(((ITP*)it)->p != 0, "no dereference of an end iterator"); cell_pre = nondet_u64(); __CPROVER_assume(cell_pre < g_S); return &cell_pre; }
void* CNI_INC(void* it) { __CPROVER_assert(!(g_decr_pending && g_last_decr == 0), "C16: a counter that dropped to zero is enqueued for removal before the search goes on"); g_decr_pending = 0; ((ITP*)it)->p = MAYBE; return it; }
uint64_t DECR(void* cnt, uint64_t a, uint64_t q) { __CPROVER_assert(cnt == (void*)&cell_b1->f4 && a == cell_a && q == cell_pre && g_cont_valid && g_cont && g_erased_cur && !g_decr_pending,
   "C16: only b1's counter of (label, predecessor) under the cursors is decremented, for a label in both insets, after the entry was erased"); g_last_decr = nondet_u64(); g_decr_pending = 1; return g_last_decr; }
void ENQ(void* e, void* b, uint64_t a, uint64_t q) { __CPROVER_assert(e == (void*)g_this && b == (void*)cell_b1 && a == cell_a && q == cell_pre && g_decr_pending && g_last_decr == 0,
   "C16: (b1, label, predecessor) is enqueued only when its counter just dropped to zero"); g_decr_pending = 0; }
void h_PREM(void) { g_this = malloc(sizeof *g_this); g_blk = malloc(sizeof *g_blk); b1W = malloc(sizeof *b1W); b1O = malloc(sizeof *b1O); b2 = malloc(sizeof *b2); nH = malloc(sizeof *nH); nG = malloc(sizeof *nG);
  g_lts = malloc(8); g_prevv = malloc(8); g_remove0 = malloc(8);
  __CPROVER_assume(g_this && g_blk && b1W && b1O && b2 && nH && nG && g_lts && g_prevv && g_remove0);
  g_this->f0 = g_lts; b1W->f0 = wb1i; b2->f1 = nH; cell_rm = g_remove0; __CPROVER_assume(wb1i < g_N && g_N <= g_S && g_S < ((uint64_t)1 << 48) && g_label < g_L && SHAPE);
  g_step = 0; erased_w = 0; g_decr_pending = 0;
  PREM(g_this, g_blk, g_label); CANARY("h_PREM"); }
