/* Unit lts_premove (DESIGN.md 5-C16, 11): SimulationEngine::processRemove(block, label) -- one step of the refinement loop.
   ORDER      the pending Remove list of (block, label) is taken and CLEARED first; buildPre(preList, block->states_, label) runs BEFORE split(removeMask, *remove)
              (split re-links the state lists buildPre walks); the list is released after split; removeMask has lts.states() bits.
   ERASE      for the witness predecessor block b1W (in preList iff has_b1) and the witness column wc (in row(b1W) iff has_c):
              removeMask[wc] ==> the relation entry (b1W, wc) is erased;   only entries (b1, col) with b1 in preList and removeMask[col] are erased.
   COUNTERS   a counter is decremented only as b1.counter_.decr(a, pre) for b1 / a / pre under the cursors, a in the inset of the erased column's block
              AND of b1, pre a label-a predecessor of a state of that block;  (b1, a, pre) is enqueued IFF that decrement returned 0.
   C20        removeMask / partition_ indexed by a column below partition_.size() <= lts.states(); pre(a) below lts.states(). */
ENG* g_this; BLOCK *g_blk, *b1W, *b1O, *b2; SLE *nH, *nG; void *g_lts, *g_prevv, *g_prelist, *g_rmask, *g_remove0, *cell_rm;
uint64_t g_label, g_N, g_S, g_L, wb1i, wc, cell_S; _Bool has_b1, has_c, rm_wc;
uint64_t g_step;
/* the ghosts of each loop level are packed into one object per level: DFCC's frame checks are quadratic in the number of assigns targets */
struct LP { uint64_t cell_pre, g_last_decr; _Bool g_decr_pending; } gp;
struct LA { uint64_t cell_a; _Bool g_cont, g_cont_valid; } ga;
struct LC { uint64_t cell_col; BLOCK* cell_b2; _Bool erased_w, seen_c, cur_c, g_col_fresh, g_cur_rm, g_cur_rm_valid, g_erased_cur; } gc;
struct LB { BLOCK* cell_b1; _Bool seen_b, cur_b, has_c_cur; } gb;
#define cell_pre gp.cell_pre
#define g_last_decr gp.g_last_decr
#define g_decr_pending gp.g_decr_pending
#define cell_a ga.cell_a
#define g_cont ga.g_cont
#define g_cont_valid ga.g_cont_valid
#define cell_col gc.cell_col
#define cell_b2 gc.cell_b2
#define erased_w gc.erased_w
#define seen_c gc.seen_c
#define cur_c gc.cur_c
#define g_col_fresh gc.g_col_fresh
#define g_cur_rm gc.g_cur_rm
#define g_cur_rm_valid gc.g_cur_rm_valid
#define g_erased_cur gc.g_erased_cur
#define cell_b1 gb.cell_b1
#define seen_b gb.seen_b
#define cur_b gb.cur_b
#define has_c_cur gb.has_c_cur
#define BEQ(a, b) (!(a) == !(b))
#define SHAPE ((nH->f2 == nG || nH->f2 == nH) && (nG->f2 == nG || nG->f2 == nH) && nH->f0 < g_S && nG->f0 < g_S)
#define DONE_W ((has_c && rm_wc) ==> erased_w)
#define G_PRE   gp
#define G_LIST  G_PRE, nG->f0, nG->f2
#define G_A     G_LIST, ga
#define G_COL   G_A, gc, nH->f0, nH->f2
#define G_B1    G_COL, gb, b1O->f0
#define CONTRACT_PREM \
  __CPROVER_requires(v_this == g_this && v_block == g_blk && v_label == g_label && g_label < g_L && g_step == 0 && !erased_w && cell_rm == g_remove0 && g_remove0 != 0 && !g_decr_pending) \
  __CPROVER_assigns(G_B1, g_step, g_prelist, g_rmask, cell_rm, cell_S) \
  __CPROVER_ensures(g_step == 3 && cell_rm == 0) \
  __CPROVER_ensures(has_b1 ==> DONE_W) \
  __CPROVER_ensures(erased_w ==> (has_b1 && has_c && rm_wc))
#define SOUND __CPROVER_loop_invariant(g_step == 3 && (erased_w ==> (has_b1 && has_c && rm_wc)) && b1W->f0 == wb1i)
#define LOOPASG_PREM__L_B1 , G_B1
#define LOOP_PREM__L_B1 SOUND \
  __CPROVER_loop_invariant(END_PREM__L_B1.f0 == 0 && !g_decr_pending) \
  __CPROVER_loop_invariant((has_b1 && BEGIN_PREM__L_B1.f0 == 0) ==> seen_b) \
  __CPROVER_loop_invariant((has_b1 && seen_b) ==> DONE_W)
#define LOOPASG_PREM__L_COL , G_COL
#define LOOP_PREM__L_COL SOUND \
  __CPROVER_loop_invariant(!g_decr_pending && (cell_b1 == b1W || cell_b1 == b1O) && BEQ(cur_b, cell_b1 == b1W) && BEQ(has_c_cur, cur_b && has_c) && (seen_c ==> has_c_cur) && cell_b1->f0 < g_N) \
  __CPROVER_loop_invariant((has_c_cur && v_col_slot.f0.f0 == 0) ==> seen_c) \
  __CPROVER_loop_invariant((has_c_cur && seen_c) ==> DONE_W) \
  __CPROVER_loop_invariant((has_b1 && !cur_b && seen_b) ==> DONE_W)
#define CARRY __CPROVER_loop_invariant((__CPROVER_loop_entry(erased_w) ==> erased_w) && (cell_b1 == b1W || cell_b1 == b1O) && cell_b1->f0 < g_N && cell_b2 == b2 && g_erased_cur && b2->f1 == nH)
#define LOOPASG_PREM__L_A , G_A
#define LOOP_PREM__L_A SOUND CARRY \
  __CPROVER_loop_invariant(END_PREM__L_A.f0 == 0 && !g_decr_pending)
#define LOOPASG_PREM__L_LIST , G_LIST
#define LOOP_PREM__L_LIST SOUND CARRY \
  __CPROVER_loop_invariant(SHAPE && (v_elem_slot == nH || v_elem_slot == nG) && !g_decr_pending && g_cont_valid && g_cont && cell_a < g_L)
#define LOOPASG_PREM__L_PRE , G_PRE
#define LOOP_PREM__L_PRE SOUND CARRY \
  __CPROVER_loop_invariant(END_PREM__L_PRE.f0 == 0 && SHAPE && (v_elem_slot == nH || v_elem_slot == nG) && g_cont_valid && g_cont && cell_a < g_L && !(g_decr_pending && g_last_decr == 0))
