#define CANARY(n) __CPROVER_assert(0, "canary: " n " reaches the end (must FAIL)")
_Bool nondet_bool(void); uint64_t nondet_u64(void);
#define TOK ((void*)(uintptr_t)8)
#define MAYBE (nondet_bool() ? TOK : (void*)0)
#define TOKV(i) ((void*)(uintptr_t)(((i) + 1) * 8))
#define IDXV(p) ((uint64_t)(uintptr_t)(p) / 8 - 1)
typedef struct { void* p; } ITP;
uint64_t LABELS(void* l) { __CPROVER_assert(l == g_lts, "labels() of the system passed in"); return g_L; }
void ALR_CTOR(void* a) { } void ALR_DTOR(void* a) { } void RMV_DTOR(void* v) { } void SC_DTOR(void* c) { } void SS_DTOR(void* s) { } void TMP_CTOR(void* v) { } void TMP_DTOR(void* v) { }
void RMV_CTOR(void* v, uint64_t n, void* al) { __CPROVER_assert(v == (void*)&g_this->f3 && n == g_L, "C16/C20: remove_ has one (empty) slot per label"); g_rmv = 1; }
void SC_COPY(void* d, void* s) { __CPROVER_assert(d == (void*)&g_this->f4 && s == (void*)&g_parent->f4, "C16: the counter is copied from the block the new one is split from"); g_sc = 1; }
void SS_CTOR(void* s, uint64_t n) { __CPROVER_assert(s == (void*)&g_this->f5 && n == g_L, "C16/C20: the inset starts empty, over all labels"); g_ss = 1; }
void* BWL(void* l, uint64_t q) { __CPROVER_assert(l == g_lts, "backward labels in the system passed in"); return TOKV(q); }
void* SS_BEGIN(void* s) { g_vidx = IDXV(s); has_cur = (g_vidx == we && has_a); seen_a = 0; cur_a = 0; return has_cur ? TOK : MAYBE; }
void* SS_END(void* s) { return (void*)0; }
_Bool SSI_NE(void* a, void* b) { return ((ITP*)a)->p != ((ITP*)b)->p; }
uint64_t* SSI_DEREF(void* it) { __CPROVER_assert(((ITP*)it)->p != 0, "no dereference of an end iterator"); cur_a = has_cur && nondet_bool() && !seen_a; if (cur_a) seen_a = 1;
  cell_a = nondet_u64(); if (cur_a) cell_a = wa; else __CPROVER_assume(!(g_vidx == we) || cell_a != wa); __CPROVER_assume(cell_a < g_L); return &cell_a; }
void* SSI_INC(void* it) { __CPROVER_assert(!g_rm_pending, "C16: a label removed from the parent's inset is added to the new block's before the next one"); ((ITP*)it)->p = MAYBE; __CPROVER_assume(((ITP*)it)->p != 0 || !has_cur || seen_a); return it; }
void RMSTRICT(void* s, uint64_t* a) { __CPROVER_assert(s == (void*)&g_parent->f5 && *a == cell_a && !g_rm_pending, "C16: the backward label under the cursor is removed from the PARENT's inset"); g_rm_pending = 1; if (g_vidx == we && *a == wa) rm_w = 1; }
void ADD(void* s, uint64_t* a) { __CPROVER_assert(s == (void*)&g_this->f5 && *a == cell_a && g_rm_pending, "C16: ... and added to THIS block's inset"); g_rm_pending = 0; if (g_vidx == we && *a == wa) add_w = 1; }
void h_BLK2(void) { g_this = malloc(sizeof *g_this); g_parent = malloc(sizeof *g_parent); g_lts = malloc(8); nH = malloc(sizeof *nH); nG0 = malloc(sizeof *nG0); nX = malloc(sizeof *nX); nG1 = malloc(sizeof *nG1);
  __CPROVER_assume(g_this && g_parent && g_lts && nH && nG0 && nX && nG1 && SHAPE); rm_w = 0; add_w = 0; g_rm_pending = 0; g_rmv = g_sc = g_ss = 0;
  __CPROVER_assume(nH->f0 < ((uint64_t)1 << 48) && nX->f0 < ((uint64_t)1 << 48) && we < ((uint64_t)1 << 48));
  BLK2(g_this, g_lts, g_parent, nH, g_size, g_index); CANARY("h_BLK2"); }
