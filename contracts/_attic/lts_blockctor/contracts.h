/* Unit lts_blockctor (DESIGN.md 5-C16, 11): Block::Block(lts, parent, states, size, index) -- the block split off by split().
   The members are built from the arguments (index_, states_, size_; remove_ with one empty slot per label; counter_ copied from the parent;
   inset_ empty over the labels), and for every state of the circular list `states` -- witness state we (in the list iff has_e) with witness
   backward label wa (in bwLabels(we) iff has_a):
     the state now belongs to this block (block_ = this);
     each backward label of the state is moved from the parent's inset to this block's: parent.inset_.removeStrict(wa) and this->inset_.add(wa),
     for (we, wa);   nothing else is removed / added (call sites: the label under the cursor, of the state under the cursor). */
BLOCK *g_this, *g_parent; void* g_lts; SLE *nH, *nG0, *nX, *nG1; uint64_t g_size, g_index, g_L, we, wa; _Bool has_e, has_a, xp;
uint64_t rm_w, add_w, g_vidx, cell_a; _Bool has_cur, seen_a, cur_a, g_rm_pending; _Bool g_rmv, g_sc, g_ss;
#define BEQ(a, b) (!(a) == !(b))
#define E0 (xp ? nX : nH)
#define SHAPE (BEQ(xp, has_e && nH->f0 != we) && (nH->f0 == we ==> has_e) && nG0->f0 != we && nG1->f0 != we && (xp ==> nX->f0 == we) \
   && (nH->f2 == nG0 || nH->f2 == E0) && (nG0->f2 == nG0 || nG0->f2 == E0) && (nX->f2 == nG1 || nX->f2 == nH) && (nG1->f2 == nG1 || nG1->f2 == nH))
#define GOT(n) ((n)->f1 == g_this && (((n)->f0 == we && has_a) ==> (rm_w != 0 && add_w != 0)))
#define CNT_OK ((rm_w != 0) == (add_w != 0) && !g_rm_pending)
#define G_A    rm_w, add_w, seen_a, cur_a, cell_a, g_rm_pending
#define G_LIST G_A, has_cur, g_vidx, nH->f1, nX->f1, nG0->f0, nG0->f1, nG0->f2, nG1->f0, nG1->f1, nG1->f2
#define CONTRACT_BLK2 \
  __CPROVER_requires(v_this == g_this && v_lts == g_lts && v_parent == g_parent && v_states == nH && v_size == g_size && v_index == g_index && g_this != g_parent && SHAPE && rm_w == 0 && add_w == 0 && !g_rm_pending && !g_rmv && !g_sc && !g_ss) \
  __CPROVER_assigns(G_LIST, g_this->f0, g_this->f1, g_this->f2, g_rmv, g_sc, g_ss) \
  __CPROVER_ensures(g_this->f0 == g_index && g_this->f1 == nH && g_this->f2 == g_size && g_rmv && g_sc && g_ss) \
  __CPROVER_ensures(nH->f1 == g_this && (xp ==> nX->f1 == g_this)) \
  __CPROVER_ensures(CNT_OK && ((has_e && has_a) ==> rm_w != 0))
#define LOOPASG_BLK2__L_LIST , G_LIST
#define LOOP_BLK2__L_LIST \
  __CPROVER_loop_invariant(SHAPE && CNT_OK && g_this->f1 == nH && g_rmv && g_sc && g_ss) \
  __CPROVER_loop_invariant(v_states_addr_slot == nH || v_states_addr_slot == nG0 || (xp && (v_states_addr_slot == nX || v_states_addr_slot == nG1))) \
  __CPROVER_loop_invariant(v_states_addr_slot != nH ==> GOT(nH)) \
  __CPROVER_loop_invariant((xp && v_states_addr_slot == nG1) ==> GOT(nX))
#define LOOPASG_BLK2__L_A , G_A
#define LOOP_BLK2__L_A \
  __CPROVER_loop_invariant(END_BLK2__L_A.f0 == 0 && CNT_OK && BEQ(has_cur, g_vidx == we && has_a) && ((has_cur && seen_a) ==> rm_w != 0) && (__CPROVER_loop_entry(rm_w) != 0 ==> rm_w != 0)) \
  __CPROVER_loop_invariant((has_cur && BEGIN_BLK2__L_A.f0 == 0) ==> seen_a)
