/* Unit ta_iter (DESIGN.md 5-C12): the nested iterators of the rule store of ExplicitTreeAutCore against an abstract view:
   a sequence of clusters, each a non-empty sequence of symbol entries, each a non-empty sequence of tuples (store invariant NE).
   A position p of a sequence is represented by the token p+1 in the real-layout iterator's node pointer (0 = singular), so the
   verbatim libstdc++ operator== / != compare positions.  The harness materialises a SYMBOLIC WINDOW of the store -- clusters i and
   i+1, symbol entries (i,j), (i,j+1), (i+1,0) and their tuple sets, every size an unconstrained 64-bit value >= 1 -- which is all a
   single step can look at; an access outside the window fails an assertion.  Hence the proofs are for stores of any size. */
uint64_t w_i, w_j, w_k;           /* current position (cluster, symbol entry, tuple) */
uint64_t w_N;                     /* number of clusters                              */
uint64_t w_Mi, w_Mn;              /* symbol entries of cluster i and i+1             */
uint64_t w_Kij, w_Kij1, w_Kn0;    /* tuples of entries (i,j), (i,j+1), (i+1,0)       */
CMAP* w_map; CLU *w_Ci, *w_Cn; TSET *w_Tij, *w_Tij1, *w_Tn0;
E1 w_Ei, w_En; E2 w_Sij, w_Sij1, w_Sn0;
CLU* g_symcont;                   /* the cluster symbolSetIterator_ ranges over  */
TSET* g_tupcont;                  /* the tuple set tupleIterator_ ranges over    */
/* final states: a sequence of length w_NF; w_f = current position; OWN(f) = position of the cluster owned by final state number f, or none */
uint64_t w_NF, w_f; FSET* w_fset;
extern uint64_t T_FSTATE[__CPROVER_constant_infinity_uint];   /* the state at position f of the final-state sequence */
extern uint64_t T_OWN[__CPROVER_constant_infinity_uint];      /* 0: state owns no cluster; c+1: it owns the cluster at position c */
uint64_t g_found_f;               /* ghost: position at which init() stopped */
uint64_t cell_fstate;
#define ITER_GHOSTS g_symcont, g_tupcont, cell_fstate, g_found_f, w_i
#define B_TOK1(b) ((uint64_t)(b)->f1.f0.f0)   /* stateClusterIterator_ */
#define B_TOK2(b) ((uint64_t)(b)->f2.f0.f0)   /* symbolSetIterator_    */
#define B_TOK3(b) ((uint64_t)(b)->f3.f0)      /* tupleIterator_        */
#define B_END(b)  ((b)->f4)
#define BASE(it)  (&(it)->f0)
/* the iterator stands at position (i,j,k) of the window */
#define AT(b, i, j, k) (!B_END(b) && B_TOK1(b) == (i) + 1 && B_TOK2(b) == (j) + 1 && B_TOK3(b) == (k) + 1)

/* Iterator::operator++ : the lexicographic successor; end_ set and tupleIterator_ reset exactly when there is none */
#define CONTRACT_ITER_INC \
  __CPROVER_requires(AT(BASE(v_this), w_i, w_j, w_k) && g_symcont == w_Ci && g_tupcont == w_Tij) \
  __CPROVER_assigns(v_this->f0.f1, v_this->f0.f2, v_this->f0.f3, v_this->f0.f4, ITER_GHOSTS) \
  __CPROVER_ensures(__CPROVER_return_value == v_this) \
  __CPROVER_ensures((w_k + 1 < w_Kij) ==> (AT(BASE(v_this), w_i, w_j, w_k + 1) && g_tupcont == w_Tij)) \
  __CPROVER_ensures((w_k + 1 == w_Kij && w_j + 1 < w_Mi) ==> (AT(BASE(v_this), w_i, w_j + 1, 0) && g_symcont == w_Ci && g_tupcont == w_Tij1)) \
  __CPROVER_ensures((w_k + 1 == w_Kij && w_j + 1 == w_Mi && w_i + 1 < w_N) ==> (AT(BASE(v_this), w_i + 1, 0, 0) && g_symcont == w_Cn && g_tupcont == w_Tn0)) \
  __CPROVER_ensures((w_k + 1 == w_Kij && w_j + 1 == w_Mi && w_i + 1 == w_N) ==> (B_END(BASE(v_this)) && B_TOK3(BASE(v_this)) == 0))
/* BaseTransIterator(aut): first rule, or end_ iff the store has no cluster (window anchored at i = 0, j = 0) */
#define CONTRACT_BASE_CTOR \
  __CPROVER_requires(w_i == 0 && w_j == 0) \
  __CPROVER_assigns(v_this->f0, v_this->f1, v_this->f2, v_this->f3, v_this->f4, ITER_GHOSTS) \
  __CPROVER_ensures(v_this->f0 == v_aut) \
  __CPROVER_ensures(w_N == 0 ==> (B_END(v_this) && B_TOK3(v_this) == 0)) \
  __CPROVER_ensures(w_N > 0 ==> (AT(v_this, 0, 0, 0) && g_symcont == w_Ci && g_tupcont == w_Tij))
/* DownAccessorIterator: rules of one cluster (the accessor's); no cluster: singular tuple iterator = end */
#define D_TOK2(d) ((uint64_t)(d)->f1.f0.f0)
#define D_TOK3(d) ((uint64_t)(d)->f2.f0)
#define CONTRACT_DOWN_CTOR \
  __CPROVER_requires(w_j == 0 && (v_accessor->f1 == 0 || v_accessor->f1 == w_Ci)) \
  __CPROVER_assigns(v_this->f0, v_this->f1, v_this->f2, ITER_GHOSTS) \
  __CPROVER_ensures(v_this->f0 == v_accessor) \
  __CPROVER_ensures(v_accessor->f1 == 0 ==> D_TOK3(v_this) == 0) \
  __CPROVER_ensures(v_accessor->f1 != 0 ==> (D_TOK2(v_this) == 1 && D_TOK3(v_this) == 1 && g_symcont == w_Ci && g_tupcont == w_Tij))
#define CONTRACT_DOWN_INC \
  __CPROVER_requires(v_this->f0->f1 == w_Ci && D_TOK2(v_this) == w_j + 1 && D_TOK3(v_this) == w_k + 1 && g_symcont == w_Ci && g_tupcont == w_Tij) \
  __CPROVER_assigns(v_this->f1, v_this->f2, ITER_GHOSTS) \
  __CPROVER_ensures(__CPROVER_return_value == v_this) \
  __CPROVER_ensures((w_k + 1 < w_Kij) ==> (D_TOK2(v_this) == w_j + 1 && D_TOK3(v_this) == w_k + 2 && g_tupcont == w_Tij)) \
  __CPROVER_ensures((w_k + 1 == w_Kij && w_j + 1 < w_Mi) ==> (D_TOK2(v_this) == w_j + 2 && D_TOK3(v_this) == 1 && g_tupcont == w_Tij1)) \
  __CPROVER_ensures((w_k + 1 == w_Kij && w_j + 1 == w_Mi) ==> D_TOK3(v_this) == 0)
/* AcceptTransIterator::init(): from final-state position w_f on, stop at the first final state that owns a cluster and stand on its
   first rule; every final state skipped owns none; none left: tuple iterator singular (= end) */
#define A_TOKF(a) ((uint64_t)(a)->f1.f0.f0)
#define OWNS(f)   (T_OWN[T_FSTATE[f]] != 0)
#define FOUND(a)  (A_TOKF(a) - 1)      /* the final-state position init() stopped at */
#define POST_ACC_INIT(a) \
  __CPROVER_ensures(w_f <= FOUND(a) && FOUND(a) <= w_NF) \
  __CPROVER_ensures(FOUND(a) == w_NF ==> B_TOK3(BASE(a)) == 0) \
  __CPROVER_ensures(FOUND(a) < w_NF ==> (OWNS(FOUND(a)) && B_TOK1(BASE(a)) == T_OWN[T_FSTATE[FOUND(a)]] && B_TOK2(BASE(a)) == 1 && B_TOK3(BASE(a)) == 1 && w_i + 1 == B_TOK1(BASE(a)) && g_symcont == w_Ci && g_tupcont == w_Tij))
extern uint8_t T_SKIP[__CPROVER_constant_infinity_uint];   /* witness-free formulation of "all skipped own none": see the loop invariant */
uint64_t w_wf;                                              /* arbitrary witness position of a final state */
#define CONTRACT_ACC_INIT \
  __CPROVER_requires(BASE(v_this)->f0 != 0 && A_TOKF(v_this) == w_f + 1 && w_f <= w_NF && w_j == 0) \
  __CPROVER_assigns(v_this->f0.f1, v_this->f0.f2, v_this->f0.f3, v_this->f1, ITER_GHOSTS) \
  POST_ACC_INIT(v_this) \
  __CPROVER_ensures((w_f <= w_wf && w_wf < FOUND(v_this)) ==> !OWNS(w_wf))        /* every final state skipped (arbitrary witness) owns no cluster */
#define LOOPASG_ACC_INIT__B_for_cond , v_this->f0.f1, v_this->f1, cell_fstate, w_i
#define LOOP_ACC_INIT__B_for_cond \
  __CPROVER_loop_invariant(v_this_addr_slot == v_this) \
  __CPROVER_loop_invariant(BASE(v_this)->f0 != 0) \
  __CPROVER_loop_invariant(w_f + 1 <= A_TOKF(v_this) && A_TOKF(v_this) <= w_NF + 1) \
  __CPROVER_loop_invariant((w_f <= w_wf && w_wf < A_TOKF(v_this) - 1) ==> !OWNS(w_wf)) \
  __CPROVER_decreases(w_NF + 1 - A_TOKF(v_this))
/* AcceptTransIterator::operator++ : successor inside the current cluster, else init() from the next final state */
uint64_t g_init_calls, g_init_from;
#define CONTRACT_ACC_INC \
  __CPROVER_requires(B_TOK1(BASE(v_this)) == w_i + 1 && B_TOK2(BASE(v_this)) == w_j + 1 && B_TOK3(BASE(v_this)) == w_k + 1 && g_symcont == w_Ci && g_tupcont == w_Tij && A_TOKF(v_this) == w_f + 1 && w_f < w_NF && g_init_calls == 0) \
  __CPROVER_assigns(v_this->f0.f1, v_this->f0.f2, v_this->f0.f3, v_this->f1, ITER_GHOSTS, g_init_calls, g_init_from) \
  __CPROVER_ensures(__CPROVER_return_value == v_this) \
  __CPROVER_ensures((w_k + 1 < w_Kij) ==> (B_TOK1(BASE(v_this)) == w_i + 1 && B_TOK2(BASE(v_this)) == w_j + 1 && B_TOK3(BASE(v_this)) == w_k + 2 && A_TOKF(v_this) == w_f + 1 && g_init_calls == 0)) \
  __CPROVER_ensures((w_k + 1 == w_Kij && w_j + 1 < w_Mi) ==> (B_TOK1(BASE(v_this)) == w_i + 1 && B_TOK2(BASE(v_this)) == w_j + 2 && B_TOK3(BASE(v_this)) == 1 && A_TOKF(v_this) == w_f + 1 && g_init_calls == 0)) \
  __CPROVER_ensures((w_k + 1 == w_Kij && w_j + 1 == w_Mi) ==> (g_init_calls == 1 && g_init_from == w_f + 1))
/* operator== / != : equal iff both are end, or they stand on the same tuple position */
#define CONTRACT_ITER_EQ __CPROVER_assigns() __CPROVER_ensures(__CPROVER_return_value == ((B_END(v_this) && B_END(v_rhs)) || B_TOK3(v_this) == B_TOK3(v_rhs)))
#define CONTRACT_ITER_NE __CPROVER_assigns() __CPROVER_ensures(__CPROVER_return_value == !((B_END(v_this) && B_END(v_rhs)) || B_TOK3(v_this) == B_TOK3(v_rhs)))
