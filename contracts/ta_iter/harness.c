#define CANARY(n) __CPROVER_assert(0, "canary: " n " reaches the end (must FAIL)")
_Bool nondet_bool(void);
/* ------------- position stubs (assumed contracts on the libstdc++ containers) ------------- */
/* cluster map */
HN1 CMAP_BEGIN(CMAP* m) { __CPROVER_assert(m == w_map, "begin() asked of the store's cluster map"); return (HN1)(uintptr_t)1; }
HN1 CMAP_END(CMAP* m)   { __CPROVER_assert(m == w_map, "end() asked of the store's cluster map"); return (HN1)(uintptr_t)(w_N + 1); }
void CMAP_CFROM(NI1* d, NI1m* s) { d->f0.f0 = s->f0.f0; }
NI1* CMAP_CINC(NI1* it) { __CPROVER_assert((uint64_t)it->f0.f0 >= 1 && (uint64_t)it->f0.f0 <= w_N, "++ on a dereferenceable cluster-map iterator"); it->f0.f0 = (HN1)((uint64_t)it->f0.f0 + 1); return it; }
E1* CMAP_CARROW(NI1* it) { uint64_t p = (uint64_t)it->f0.f0 - 1; __CPROVER_assert(p < w_N, "-> on a dereferenceable cluster-map iterator");
  __CPROVER_assert(p == w_i || p == w_i + 1, "access stays inside the window (cluster i or i+1)"); return p == w_i ? &w_Ei : &w_En; }
/* find(state): the cluster the state owns, or end(); the window is anchored at the cluster found */
HN1 CMAP_FIND(CMAP* m, uint64_t* st) { __CPROVER_assert(m == w_map, "find() asked of the store's cluster map"); uint64_t o = T_OWN[*st]; __CPROVER_assume(o <= w_N);
  if (o == 0) return (HN1)(uintptr_t)(w_N + 1); w_i = o - 1; return (HN1)(uintptr_t)o; }
/* one cluster */
static uint64_t size_of_cluster(const void* c) { __CPROVER_assert(c == (void*)w_Ci || c == (void*)w_Cn, "cluster inside the window"); return c == (void*)w_Ci ? w_Mi : w_Mn; }
HN2 CLU_END(CLU* c)   { return (HN2)(uintptr_t)(size_of_cluster(c) + 1); }
HN2 CLU_BEGIN(CLU* c) { size_of_cluster(c); g_symcont = c; return (HN2)(uintptr_t)1; }
HN2 CLU_CEND(CLU* c)   { return (HN2)(uintptr_t)(size_of_cluster(c) + 1); }
HN2 CLU_CBEGIN(CLU* c) { size_of_cluster(c); g_symcont = c; return (HN2)(uintptr_t)1; }
void CLU_CFROM(NI2* d, NI2m* s) { d->f0.f0 = s->f0.f0; }
NI2* CLU_CINC(NI2* it) { uint64_t n = size_of_cluster(g_symcont); __CPROVER_assert((uint64_t)it->f0.f0 >= 1 && (uint64_t)it->f0.f0 <= n, "++ on a dereferenceable symbol iterator"); it->f0.f0 = (HN2)((uint64_t)it->f0.f0 + 1); return it; }
E2* CLU_CARROW(NI2* it) { uint64_t p = (uint64_t)it->f0.f0 - 1; uint64_t n = size_of_cluster(g_symcont); __CPROVER_assert(p < n, "-> on a dereferenceable symbol iterator");
  if (g_symcont == w_Ci) { __CPROVER_assert(p == w_j || p == w_j + 1, "access stays inside the window (entry j or j+1 of cluster i)"); return p == w_j ? &w_Sij : &w_Sij1; }
  __CPROVER_assert(p == 0, "access stays inside the window (entry 0 of cluster i+1)"); return &w_Sn0; }
/* one tuple set */
static uint64_t size_of_tset(const void* t) { __CPROVER_assert(t == (void*)w_Tij || t == (void*)w_Tij1 || t == (void*)w_Tn0, "tuple set inside the window"); return t == (void*)w_Tij ? w_Kij : (t == (void*)w_Tij1 ? w_Kij1 : w_Kn0); }
RBN TSET_END(TSET* t)   { return (RBN)(uintptr_t)(size_of_tset(t) + 1); }
RBN TSET_BEGIN(TSET* t) { size_of_tset(t); g_tupcont = t; return (RBN)(uintptr_t)1; }
RBI* RBI_INC(RBI* it) { uint64_t n = size_of_tset(g_tupcont); __CPROVER_assert((uint64_t)it->f0 >= 1 && (uint64_t)it->f0 <= n, "++ on a dereferenceable tuple iterator"); it->f0 = (RBN)((uint64_t)it->f0 + 1); return it; }
/* final-state set */
HNF FSET_END(FSET* s) { __CPROVER_assert(s == w_fset, "end() asked of the automaton's final-state set"); return (HNF)(uintptr_t)(w_NF + 1); }
uint64_t* FSET_DEREF(FI* it) { uint64_t p = (uint64_t)it->f0.f0 - 1; __CPROVER_assert(p < w_NF, "* on a dereferenceable final-state iterator"); cell_fstate = T_FSTATE[p]; return &cell_fstate; }
FI* FSET_INC(FI* it) { __CPROVER_assert((uint64_t)it->f0.f0 >= 1 && (uint64_t)it->f0.f0 <= w_NF, "++ on a dereferenceable final-state iterator"); it->f0.f0 = (HNF)((uint64_t)it->f0.f0 + 1); return it; }
#ifdef STUB_ACC_INIT
void ACC_INIT(AIT* a) { g_init_calls++; g_init_from = A_TOKF(a) - 1; }
#endif
/* ------------- the window: an arbitrary store satisfying NE, an arbitrary valid position ------------- */
static AUT* window(void) {
  AUT* aut = malloc(sizeof *aut); __CPROVER_assume(aut != 0);
  w_map = malloc(sizeof *w_map); w_Ci = malloc(sizeof *w_Ci); w_Cn = malloc(sizeof *w_Cn);
  w_Tij = malloc(sizeof *w_Tij); w_Tij1 = malloc(sizeof *w_Tij1); w_Tn0 = malloc(sizeof *w_Tn0);
  __CPROVER_assume(w_map && w_Ci && w_Cn && w_Tij && w_Tij1 && w_Tn0);
  aut->f2.f0.f0 = w_map; w_fset = (FSET*)&aut->f1;
  w_Ei.f1.f0.f0 = w_Ci; w_En.f1.f0.f0 = w_Cn; w_Sij.f1.f0.f0 = w_Tij; w_Sij1.f1.f0.f0 = w_Tij1; w_Sn0.f1.f0.f0 = w_Tn0;
  /* sizes: anything, but no empty cluster and no empty tuple set (NE); bounded only so that position + 2 cannot wrap */
  __CPROVER_assume(w_N < (1ULL << 62) && w_Mi < (1ULL << 62) && w_Mn < (1ULL << 62) && w_Kij < (1ULL << 62) && w_Kij1 < (1ULL << 62) && w_Kn0 < (1ULL << 62) && w_NF < (1ULL << 62));
  __CPROVER_assume(w_Mi >= 1 && w_Mn >= 1 && w_Kij >= 1 && w_Kij1 >= 1 && w_Kn0 >= 1);
  return aut; }
void h_ITER_INC(void) { AUT* aut = window(); IT* it = malloc(sizeof *it); __CPROVER_assume(it != 0); __CPROVER_assume(w_i < w_N && w_j < w_Mi && w_k < w_Kij);
  it->f0.f0 = aut; it->f0.f1.f0.f0 = (HN1)(uintptr_t)(w_i + 1); it->f0.f2.f0.f0 = (HN2)(uintptr_t)(w_j + 1); it->f0.f3.f0 = (RBN)(uintptr_t)(w_k + 1); it->f0.f4 = 0; g_symcont = w_Ci; g_tupcont = w_Tij;
  ITER_INC(it); CANARY("h_ITER_INC"); }
void h_BASE_CTOR(void) { AUT* aut = window(); BIT* it = malloc(sizeof *it); __CPROVER_assume(it != 0); w_i = 0; w_j = 0; BASE_CTOR(it, aut); CANARY("h_BASE_CTOR"); }
void h_DOWN_CTOR(void) { window(); DIT* it = malloc(sizeof *it); DACC* acc = malloc(sizeof *acc); __CPROVER_assume(it && acc); acc->f1 = nondet_bool() ? w_Ci : 0; w_j = 0; DOWN_CTOR(it, acc); CANARY("h_DOWN_CTOR"); }
void h_DOWN_INC(void) { window(); DIT* it = malloc(sizeof *it); DACC* acc = malloc(sizeof *acc); __CPROVER_assume(it && acc); __CPROVER_assume(w_j < w_Mi && w_k < w_Kij);
  acc->f1 = w_Ci; it->f0 = acc; it->f1.f0.f0 = (HN2)(uintptr_t)(w_j + 1); it->f2.f0 = (RBN)(uintptr_t)(w_k + 1); g_symcont = w_Ci; g_tupcont = w_Tij; DOWN_INC(it); CANARY("h_DOWN_INC"); }
void h_ACC_INIT(void) { AUT* aut = window(); AIT* it = malloc(sizeof *it); __CPROVER_assume(it != 0); __CPROVER_assume(w_f <= w_NF); w_j = 0;
  it->f0.f0 = aut; it->f1.f0.f0 = (HNF)(uintptr_t)(w_f + 1); ACC_INIT(it); CANARY("h_ACC_INIT"); }
void h_ACC_INC(void) { AUT* aut = window(); AIT* it = malloc(sizeof *it); __CPROVER_assume(it != 0); __CPROVER_assume(w_i < w_N && w_j < w_Mi && w_k < w_Kij && w_f < w_NF);
  it->f0.f0 = aut; it->f0.f1.f0.f0 = (HN1)(uintptr_t)(w_i + 1); it->f0.f2.f0.f0 = (HN2)(uintptr_t)(w_j + 1); it->f0.f3.f0 = (RBN)(uintptr_t)(w_k + 1); it->f1.f0.f0 = (HNF)(uintptr_t)(w_f + 1);
  g_symcont = w_Ci; g_tupcont = w_Tij; g_init_calls = 0; ACC_INC(it); CANARY("h_ACC_INC"); }
void h_ITER_EQ(void) { BIT *a = malloc(sizeof *a), *b = malloc(sizeof *b); __CPROVER_assume(a && b); if (nondet_bool()) b = a; ITER_EQ(a, b); CANARY("h_ITER_EQ"); }
void h_ITER_NE(void) { BIT *a = malloc(sizeof *a), *b = malloc(sizeof *b); __CPROVER_assume(a && b); if (nondet_bool()) b = a; ITER_NE(a, b); CANARY("h_ITER_NE"); }
