/* Unit ta_reduce (DESIGN.md 5-C05, 11): ExplicitTreeAutCore::Reduce as a composition.  g_step counts the stages; each stub asserts that it is called
   at its stage with the objects produced by the stages before:
   1 the states of *this are indexed (the counter ends up as their number g_cnt)      2 SimParam: TA_DOWNWARD with numStates == g_cnt
   3 sim = ComputeSimulation(*this, that SimParam)     4 sim.RestrictToSymmetric()     5 sim.GetQuotientProjection(collapseMap), collapseMap fresh (empty)
   6 result = CollapseStates(*this, collapseMap)       7 tmp = result.RemoveUnreachableStates()     8 result = move(tmp);  result is returned, not destroyed.
   Stages 7-8 (pruning, language preserving by C03) are admitted but not demanded: C05 does not ask for a trimmed result. */
AUT *g_this, *g_ret; void* g_params; uint64_t g_cnt, g_step, g_num; uint64_t* g_cnt_ptr; uint32_t g_rel_set; void *g_sim, *g_cmap, *g_simparam, *g_tmp, *g_tw; uint64_t g_umaps; _Bool g_ret_destroyed;
#define RG g_step, g_num, g_cnt_ptr, g_rel_set, g_sim, g_cmap, g_simparam, g_tmp, g_tw, g_umaps, g_ret_destroyed
#define CONTRACT_REDUCE \
  __CPROVER_requires(v_this == g_this && v_agg_result == g_ret && v_params == g_params && g_step == 0 && g_umaps == 0 && !g_ret_destroyed) \
  __CPROVER_assigns(RG) \
  __CPROVER_ensures((g_step == 6 || g_step == 8) && !g_ret_destroyed)
