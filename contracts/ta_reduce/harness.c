#define CANARY(n) __CPROVER_assert(0, "canary: " n " reaches the end (must FAIL)")
void UMAP_CTOR(void* m) { g_umaps++; if (g_step == 4) g_cmap = m; } void UMAP_DTOR(void* m) { } void FUNC_DTOR(void* f) { } void DBR_DTOR(void* r) { } void TW_DTOR(void* t) { }
void FUNC_CTOR(void* f, void* closure) { g_cnt_ptr = ((uint64_t**)closure)[0]; }        /* the lambda [&stateCnt] */
void TW_CTOR(void* tw, void* map, void* f) { g_tw = tw; }
void BSI(void* a, void* tw) { __CPROVER_assert(a == (void*)g_this && tw == g_tw && g_step == 0 && g_cnt_ptr != 0 && *g_cnt_ptr == 0, "C05 stage 1: the states of *this are indexed with a counter starting at 0"); *g_cnt_ptr = g_cnt; g_step = 1; }
void SIMP_CTOR(void* p) { g_simparam = p; g_rel_set = 0xFFFFFFFFu; g_num = 0; }
uint32_t GET_REL(void* p) { __CPROVER_assert(p == g_params, "the relation is read from the parameter object"); return 0; /* e_reduce_relation::TA_DOWNWARD, the only enumerator */ }
void SET_REL(void* p, uint32_t r) { __CPROVER_assert(p == g_simparam, "SimParam under construction"); g_rel_set = r; }
void SET_NUM(void* p, uint64_t n) { __CPROVER_assert(p == g_simparam, "SimParam under construction"); g_num = n; }
void CSIM(void* ret, void* a, void* p) { __CPROVER_assert(a == (void*)g_this && p == g_simparam && g_step == 1, "C05 stage 3: the simulation of *this is computed");
  __CPROVER_assert(g_rel_set == 0 && g_num == g_cnt, "C05 stage 2: downward simulation, over as many states as were indexed"); g_sim = ret; g_step = 3; }
void DRTS(void* r) { __CPROVER_assert(r == g_sim && g_step == 3, "C05 stage 4: the simulation is restricted to its symmetric part before the quotient is taken"); g_step = 4; }
void DGQP(void* r, void* m) { __CPROVER_assert(r == g_sim && g_step == 4 && m == g_cmap && m != 0, "C05 stage 5: the quotient projection of the symmetric relation goes into a fresh map"); g_step = 5; }
void COLLAPSE(void* ret, void* a, void* m) { __CPROVER_assert(ret == (void*)g_ret && a == (void*)g_this && m == g_cmap && g_step == 5, "C05 stage 6: *this is collapsed by the projection"); g_step = 6; }
void RUS(void* ret, void* a, void* tm) { __CPROVER_assert(a == (void*)g_ret && g_step == 6 && tm == (void*)0, "C05 stage 7: the collapsed automaton is pruned"); g_tmp = ret; g_step = 7; }
void* AUT_MOVEASG(void* d, void* s) { __CPROVER_assert(d == (void*)g_ret && s == g_tmp && g_step == 7, "C05 stage 8: the pruned automaton becomes the result"); g_step = 8; return d; }
void AUT_DTOR(void* a) { if (a == (void*)g_ret) g_ret_destroyed = 1; }
void h_REDUCE(void) { g_this = malloc(sizeof *g_this); g_ret = malloc(sizeof *g_ret); g_params = malloc(4); __CPROVER_assume(g_this && g_ret && g_params); g_step = 0; g_umaps = 0; g_ret_destroyed = 0; g_cnt_ptr = 0;
  REDUCE(g_ret, g_this, g_params); CANARY("h_REDUCE"); }
