#include "common/sp_stubs.h"
#define CANARY(n) __CPROVER_assert(0, "canary: " n " reaches the end (must FAIL)")
_Bool nondet_bool(void);
void BASE_CTOR(BASE* b) { }
void FS_CTOR(FSET* s) { __CPROVER_assert(s == (FSET*)&g_this->f1, "the copy's own final-state set starts empty"); g_fs_empty = 1; } void FS_DTOR(FSET* s) { }
FSET* FS_ASSIGN(FSET* d, FSET* s) { __CPROVER_assert(d == (FSET*)&g_this->f1 && s == (FSET*)&g_src->f1, "C11: the final states are assigned from the source's"); g_fs_assigned = 1; g_fs_from = s; return d; }
void SPM_NULL(SPM* s) { SP_PTR(s) = 0; SP_CTRLV(s) = 0; }
DEF_SP_RAW(SPM_RAW, SPM, MAPT)
DEF_SP_MOVEASG(SPM_MOVEASG, SPM)
DEF_SP_DTOR(SPM_DTOR, SPM)
SPM* SPM_COPYASG(SPM* d, SPM* s) { if (SP_CTRLV(d) != SP_CTRLV(s)) { void* np = (void*)SP_PTR(s); void* nc = (void*)SP_CTRLV(s); if (nc) ((struct GC*)nc)->count++;
    sp_release_((void**)&SP_PTR(d), (void**)&SP_CTRLV(d)); *(void**)&SP_PTR(d) = np; *(void**)&SP_CTRLV(d) = nc; } return d; }
void MAP_NEW(MAPT* m) { g_fresh = m; }
void SPA_COPY(SPA* d, SPA* s) { SP_PTR(d) = SP_PTR(s); SP_CTRLV(d) = SP_CTRLV(s); } void SPA_DTOR(SPA* s) { }
SPA* SPA_COPYASG(SPA* d, SPA* s) { SP_PTR(d) = SP_PTR(s); SP_CTRLV(d) = SP_CTRLV(s); return d; }
static void mk_src(void) { g_src = malloc(sizeof *g_src); g_M = malloc(sizeof *g_M); g_cM = malloc(sizeof *g_cM); __CPROVER_assume(g_src && g_M && g_cM);
  SP_PTR(&g_src->f2) = g_M; SP_CTRLV(&g_src->f2) = (void*)g_cM; g_cM->local = 0; g_nM0 = g_cM->count; __CPROVER_assume(g_nM0 >= 1 && g_nM0 < UINT64_MAX); OWNERS(g_M) = g_cM; g_fs_assigned = 0; }
void h_COPY3(void) { mk_src(); g_this = malloc(sizeof *g_this); __CPROVER_assume(g_this); g_fs_empty = 0; g_fresh = 0; COPY3(g_this, g_src, g_ct, g_cf); CANARY("h_COPY3"); }
void h_ASSIGN(void) { mk_src();
  if (nondet_bool()) { g_this = g_src; g_old = g_M; g_cOld = g_cM; }
  else { g_this = malloc(sizeof *g_this); __CPROVER_assume(g_this);
    if (nondet_bool()) { g_old = g_M; g_cOld = g_cM; __CPROVER_assume(g_nM0 >= 2); }        /* this already shares rhs's map */
    else { g_old = malloc(sizeof *g_old); g_cOld = malloc(sizeof *g_cOld); __CPROVER_assume(g_old && g_cOld && g_cOld->count >= 1); g_cOld->local = 0; OWNERS(g_old) = g_cOld; }
    SP_PTR(&g_this->f2) = g_old; SP_CTRLV(&g_this->f2) = (void*)g_cOld; }
  g_nOld0 = g_cOld->count;
  AUT* r = ASSIGN(g_this, g_src); CANARY("h_ASSIGN"); }
