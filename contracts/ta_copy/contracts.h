/* Unit ta_copy (DESIGN.md 5-C11, 11): copy construction ExplicitTreeAutCore(aut, copyTrans, copyFinal) and copy assignment of the tree core --
   "explicit automata are values: copies are isolated".  A copy SHARES the rule store of its source (that is why every mutation goes through the
   unique* functions of unit ta_cow); what this unit decides is that the sharing is ACCOUNTED for, so that unique() tells the truth afterwards:
     copy ctor, copyTrans:   this->transitions_ is the source's map M and M has exactly ONE more owner;  !copyTrans: a fresh map with one owner,
                             M's owners unchanged;   copyFinal: the final states are assigned from the source's, else they stay empty;
                             the source is not written (frame).
     operator=:              this == &rhs: nothing changes;  otherwise the final states are assigned from rhs's, this gives up its old map
                             (one owner less; reclaimed iff that was the last) and becomes one more owner of rhs's map. */
#include "common/sp_ghost.h"
AUT *g_this, *g_src; MAPT *g_M, *g_old; struct GC *g_cM, *g_cOld; uint64_t g_nM0, g_nOld0; _Bool g_ct, g_cf, g_fs_assigned, g_fs_empty; void* g_fs_from; MAPT* g_fresh;
#define CONTRACT_COPY3 \
  __CPROVER_requires(v_this == g_this && v_aut == g_src && v_copyTrans == g_ct && v_copyFinal == g_cf && g_this != g_src && !g_fs_assigned && !g_fs_empty && g_fresh == 0) \
  __CPROVER_requires(SP_PTR(&g_src->f2) == g_M && SP_CTRL(&g_src->f2) == g_cM && g_cM->count == g_nM0 && g_nM0 >= 1 && g_nM0 < UINT64_MAX) \
  __CPROVER_assigns(__CPROVER_object_whole(g_this), g_cM->count, g_fs_assigned, g_fs_empty, g_fs_from, g_fresh, SP_GHOSTS) \
  __CPROVER_ensures(SP_PTR(&g_src->f2) == g_M && SP_CTRL(&g_src->f2) == g_cM) \
  __CPROVER_ensures(g_ct ==> (SP_PTR(&g_this->f2) == g_M && SP_CTRL(&g_this->f2) == g_cM && g_cM->count == g_nM0 + 1)) \
  __CPROVER_ensures(!g_ct ==> (SP_PTR(&g_this->f2) == g_fresh && g_fresh != 0 && g_fresh != g_M && SP_CTRL(&g_this->f2) != 0 && SP_CTRL(&g_this->f2)->count == 1 && g_cM->count == g_nM0)) \
  __CPROVER_ensures(g_fs_empty && (g_cf ==> (g_fs_assigned && g_fs_from == (void*)&g_src->f1)) && (!g_cf ==> !g_fs_assigned))
#define CONTRACT_ASSIGN \
  __CPROVER_requires(v_this == g_this && v_rhs == g_src && !g_fs_assigned) \
  __CPROVER_requires(SP_PTR(&g_src->f2) == g_M && SP_CTRL(&g_src->f2) == g_cM && g_cM->count == g_nM0 && g_nM0 >= 1 && g_nM0 < UINT64_MAX) \
  __CPROVER_requires(SP_PTR(&g_this->f2) == g_old && SP_CTRL(&g_this->f2) == g_cOld && g_cOld->count == g_nOld0 && g_nOld0 >= 1 && (g_this == g_src ==> (g_old == g_M && g_cOld == g_cM)) && (g_cOld == g_cM ==> g_old == g_M)) \
  __CPROVER_assigns(__CPROVER_object_whole(g_this), g_cM->count, g_cOld->count, g_fs_assigned, g_fs_from, SP_GHOSTS) \
  __CPROVER_ensures(__CPROVER_return_value == g_this && SP_PTR(&g_this->f2) == g_M && SP_CTRL(&g_this->f2) == g_cM && SP_PTR(&g_src->f2) == g_M) \
  __CPROVER_ensures(g_this == g_src ==> (g_cM->count == g_nM0 && !g_fs_assigned)) \
  __CPROVER_ensures((g_this != g_src && g_cOld != g_cM) ==> (g_cM->count == g_nM0 + 1 && g_cOld->count == g_nOld0 - 1 && g_fs_assigned && g_fs_from == (void*)&g_src->f1)) \
  __CPROVER_ensures((g_this != g_src && g_cOld == g_cM) ==> (g_cM->count == g_nM0 && g_fs_assigned))
