#define CANARY(n) __CPROVER_assert(0, "canary: " n " reaches the end (must FAIL)")
#define TOKF ((void*)(uintptr_t)16)
#define TOKS ((void*)(uintptr_t)24)
#define TOKV ((void*)(uintptr_t)32)
uint64_t D_SIZE(void* d) { __CPROVER_assert(d == (void*)&g_this->f2, "size of data_"); return g_L; }
void D_RESIZE(void* d, uint64_t n) { __CPROVER_assert(d == (void*)&g_this->f2 && n > g_L && n == g_a + 1, "data_ only grows, to cover the label"); g_L = n; g_fsz = 0; g_ssz = 0; }   /* the new label's vectors are empty */
void* D_AT(void* d, uint64_t a) { __CPROVER_assert(d == (void*)&g_this->f2 && a == g_a && a < g_L, "C20: data_ is indexed by the label, below its size"); g_at_valid = 1; return cell_pair; }
uint64_t VV_SIZE(void* v) { __CPROVER_assert(g_at_valid && (v == (void*)&cell_pair->f0 || v == (void*)&cell_pair->f1), "size of first / second of the label's entry"); return v == (void*)&cell_pair->f0 ? g_fsz : g_ssz; }
void VV_RESIZE(void* v, uint64_t n) { __CPROVER_assert(g_at_valid && (v == (void*)&cell_pair->f0 || v == (void*)&cell_pair->f1), "resize of first / second of the label's entry");
  if (v == (void*)&cell_pair->f0) { __CPROVER_assert(n > g_fsz && n == g_q + 1, "first only grows, to cover q"); g_fsz = n; } else { __CPROVER_assert(n > g_ssz && n == g_r + 1, "second only grows, to cover r"); g_ssz = n; } }
void* VV_AT(void* v, uint64_t i) { __CPROVER_assert(g_at_valid && (v == (void*)&cell_pair->f0 || v == (void*)&cell_pair->f1), "first / second of the label's entry");
  if (v == (void*)&cell_pair->f0) { __CPROVER_assert(i == g_q && i < g_fsz, "C20: first is indexed by q, below its size"); g_vtok_first = 1; } else { __CPROVER_assert(i == g_r && i < g_ssz, "C20: second is indexed by r, below its size"); g_vtok_first = 0; }
  g_vtok_idx = i; g_vtok_valid = 1; return TOKV; }
void V_PUSH(void* v, uint64_t* x) { __CPROVER_assert(v == TOKV && g_vtok_valid, "push into the successor / predecessor list just looked up");
  if (g_vtok_first) { __CPROVER_assert(*x == g_r && !g_push_f, "C16: r becomes a successor of q under a, once"); g_push_f = 1; } else { __CPROVER_assert(*x == g_q && !g_push_s, "C16: q becomes a predecessor of r under a, once"); g_push_s = 1; }
  g_vtok_valid = 0; }
void h_ADDT(void) { g_this = malloc(sizeof *g_this); cell_pair = malloc(sizeof *cell_pair); __CPROVER_assume(g_this && cell_pair); g_st0 = g_this->f0; g_tr0 = g_this->f1;
  __CPROVER_assume(g_q < (1ULL << 62) && g_r < (1ULL << 62) && g_a < (1ULL << 62) && g_st0 < (1ULL << 62) && g_tr0 < UINT64_MAX && (g_a >= g_L || INV));
  g_push_f = g_push_s = g_at_valid = g_vtok_valid = 0;
  ADDT(g_this, g_q, g_a, g_r); CANARY("h_ADDT"); }
