/* Unit lts_addtrans (DESIGN.md 5-C16 / C04, 11): ExplicitLTS::addTransition(q, a, r) -- the only way a system is built (TranslateDownward / Upward).
   Representation invariant INV(a): data_[a].first.size() <= states_ and data_[a].second.size() <= states_  (so "index < size" implies "index < states_").
   Given INV for the label in hand (an absent label has two empty vectors):
     the edge is recorded both ways: data_[a].first[q] gets r and data_[a].second[r] gets q, each vector indexed within its (grown) size (C20);
     transitions_ grows by one;  states_ only grows and ends above q and r;  INV(a) holds again;  labels() ends above a. */
LTS* g_this; uint64_t g_q, g_a, g_r, g_L, g_fsz, g_ssz, g_st0, g_tr0; _Bool g_at_valid;
_Bool g_push_f, g_push_s; uint64_t g_vtok_idx; _Bool g_vtok_first, g_vtok_valid; DPAIR* cell_pair;
#define INV (g_fsz <= g_this->f0 && g_ssz <= g_this->f0)
#define CONTRACT_ADDT \
  __CPROVER_requires(v_this == g_this && v_q == g_q && v_a == g_a && v_r == g_r && g_q < (1ULL << 62) && g_r < (1ULL << 62) && g_a < (1ULL << 62)) \
  __CPROVER_requires(g_this->f0 == g_st0 && g_st0 < (1ULL << 62) && g_this->f1 == g_tr0 && g_tr0 < UINT64_MAX && (g_a < g_L ==> INV) && !g_push_f && !g_push_s && !g_at_valid && !g_vtok_valid) \
  __CPROVER_assigns(g_this->f0, g_this->f1, g_L, g_fsz, g_ssz, g_at_valid, g_push_f, g_push_s, g_vtok_idx, g_vtok_first, g_vtok_valid) \
  __CPROVER_ensures(g_push_f && g_push_s && g_this->f1 == g_tr0 + 1) \
  __CPROVER_ensures(g_this->f0 >= g_st0 && g_this->f0 > g_q && g_this->f0 > g_r && g_L > g_a && INV && g_fsz > g_q && g_ssz > g_r)
