#define CANARY(n) __CPROVER_assert(0, "canary: " n " reaches the end (must FAIL)")
#define TOKV(i) ((void*)(uintptr_t)(((i) + 1) * 8))
#define IDXV(p) ((uint64_t)(uintptr_t)(p) / 8 - 1)
uint64_t __CPROVER_uninterpreted_INDEG(uint64_t a, uint64_t r);
uint64_t D_SIZE(void* d) { __CPROVER_assert(d == (void*)&g_this->f2, "size of data_ (the number of labels)"); return g_L; }
void SS_CTOR(void* s, uint64_t n) { __CPROVER_assert(n == g_L, "C16/C20: every set of backward labels ranges over [0, labels)"); g_ss_ok = 1; } void SS_DTOR(void* s) { }
void BW_RESIZE(void* v, uint64_t n, void* proto) { __CPROVER_assert(v == (void*)&g_this->f3 && n == g_S && g_ss_ok && !g_bw_resized, "C16: bwLabels_ gets one set per state"); g_bw_resized = 1; }
void* D_AT(void* d, uint64_t a) { __CPROVER_assert(d == (void*)&g_this->f2 && a < g_L, "C20: data_ is indexed below the number of labels"); if (!g_dat_valid || g_cur_a != a) { g_f_resized = 0; g_s_resized = 0; } g_cur_a = a; g_dat_valid = 1; return cell_pair; }
void VV_RESIZE(void* v, uint64_t n) { __CPROVER_assert(g_dat_valid && n == g_S && (v == (void*)&cell_pair->f0 || v == (void*)&cell_pair->f1), "C16: both vectors of the label under the cursor are resized to states_");
  if (v == (void*)&cell_pair->f0) g_f_resized = 1; else g_s_resized = 1; }
void* VV_AT(void* v, uint64_t r) { __CPROVER_assert(g_dat_valid && v == (void*)&cell_pair->f1 && g_s_resized && r < g_S, "C20: the predecessor vector is indexed below its (new) size, after the resize"); g_cur_r = r; return TOKV(r); }
uint64_t V_SIZE(void* v) { __CPROVER_assert(IDXV(v) == g_cur_r, "the predecessor list of the state under the cursor"); g_in = __CPROVER_uninterpreted_INDEG(g_cur_a, g_cur_r); g_in_valid = 1; return g_in; }
void* BW_AT(void* v, uint64_t r) { __CPROVER_assert(v == (void*)&g_this->f3 && g_bw_resized && r < g_S, "C20: bwLabels_ is indexed below its (new) size"); g_cur_r = r; return TOKV(r); }
void SS_INIT(void* s, uint64_t* a, uint64_t c) { __CPROVER_assert(IDXV(s) == g_cur_r && *a == g_cur_a && *a < g_L && g_in_valid && c == g_in, "C16: bwLabels_[r].init(a, number of a-predecessors of r) for the label / state under the cursors");
  g_in_valid = 0; if (g_cur_a == wa && g_cur_r == wr) init_w++; }
void h_LINIT(void) { g_this = malloc(sizeof *g_this); cell_pair = malloc(sizeof *cell_pair); __CPROVER_assume(g_this && cell_pair); g_S = g_this->f0; __CPROVER_assume(g_S < ((uint64_t)1 << 48)); init_w = 0; g_bw_resized = g_ss_ok = g_dat_valid = 0;
  LINIT(g_this); CANARY("h_LINIT"); }
