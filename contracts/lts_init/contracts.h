/* Unit lts_init (DESIGN.md 5-C16 / C04, 11): ExplicitLTS::init() -- the last step of both encodings, before the engine reads the system.
     bwLabels_ gets one set per state, each over the range [0, labels);
     for every label BOTH vectors (successors, predecessors) are resized to states_ BEFORE they are indexed (so every state below states_ can be
     looked up: the engine indexes pre(a) / post(a) by any state);
     for an ARBITRARY label wa < labels and state wr < states_:  bwLabels_[wr].init(wa, |pre_wa(wr)|) is called, exactly once, and only such calls
     are made (label / state under the cursors, the size of THAT predecessor list);  C20: every index below the (new) sizes. */
LTS* g_this; uint64_t g_L, g_S, wa, wr, init_w; _Bool g_bw_resized, g_ss_ok, g_f_resized, g_s_resized, g_dat_valid; uint64_t g_cur_a, g_cur_r, g_in; _Bool g_in_valid; DPAIR* cell_pair;
#define G_ST init_w, g_f_resized, g_s_resized, g_dat_valid, g_cur_a, g_cur_r, g_in, g_in_valid
#define CONTRACT_LINIT \
  __CPROVER_requires(v_this == g_this && g_this->f0 == g_S && init_w == 0 && !g_bw_resized && !g_ss_ok) \
  __CPROVER_assigns(G_ST, g_bw_resized, g_ss_ok) \
  __CPROVER_ensures(g_bw_resized && init_w <= 1 && ((wa < g_L && wr < g_S) ==> init_w == 1))
#define LOOPASG_LINIT__L_LABELS , G_ST
#define LOOP_LINIT__L_LABELS \
  __CPROVER_loop_invariant(v_a_slot <= g_L && g_bw_resized && init_w <= 1 && ((wa < v_a_slot && wr < g_S) ==> init_w == 1) && (wa >= v_a_slot ==> init_w == 0))
#define LOOPASG_LINIT__L_STATES , init_w, g_cur_r, g_in, g_in_valid, g_dat_valid, g_cur_a
#define LOOP_LINIT__L_STATES \
  __CPROVER_loop_invariant(v_a_slot < g_L && v_r_slot <= g_S && g_dat_valid && g_cur_a == v_a_slot && g_bw_resized && g_f_resized && g_s_resized && init_w <= 1 && ((wa < v_a_slot && wr < g_S) ==> init_w == 1) && (wa > v_a_slot ==> init_w == 0)) \
  __CPROVER_loop_invariant(wa == v_a_slot ==> ((wr < v_r_slot) == (init_w == 1)))
