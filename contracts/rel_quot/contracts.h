/* Unit rel_quot (DESIGN.md 5-C05, 11): the two relation operations Reduce builds its collapse map from (include/vata/util/binary_relation.hh).
   The matrix is abstract: get / set / size of BinaryRelation are stubs over the entries of an arbitrary WITNESS PAIR, index bounds asserted (C20).
   RestrictToSymmetric:  for wr < wc < n, afterwards  M[wr][wc] == M[wc][wr] == (old M[wr][wc] && old M[wc][wr]);  the diagonal is never written.
   GetQuotientProjection(quotProj): for arbitrary indices w, v < n (quotProj as a cell map, rel(., w) and rel(., v) as unbounded tables):
     (Q1) quotProj[w] is defined and <= w;   (Q2) quotProj[w] == w or rel(quotProj[w], w);   (Q3) a representative represents itself: quotProj[w] == v ==> quotProj[v] == v.
     No equivalence assumption is needed for Q1-Q3.  Q1+Q3: every state of the quotient is the image of a state, the quotient never has more states.
   DiscontBinaryRelation wrappers: RestrictToSymmetric forwards to rel_; GetQuotientProjection(map) inserts (Bwd(i), Bwd(inner[i])) for every index i. */
#define BEQ(a, b) (!(a) == !(b))
#define UNDEF UINT64_MAX
BR* g_br; uint64_t g_n, wr, wc; _Bool m_rc, m_cr, e_rc0, e_cr0; _Bool c_scratch_b;
#define RTS_DONE      (BEQ(m_rc, e_rc0 && e_cr0) && BEQ(m_cr, e_rc0 && e_cr0))
#define RTS_UNTOUCHED (BEQ(m_rc, e_rc0) && BEQ(m_cr, e_cr0))
#define CONTRACT_RTS \
  __CPROVER_requires(v_this == g_br && wr < wc && wc < g_n && RTS_UNTOUCHED) \
  __CPROVER_assigns(m_rc, m_cr, c_scratch_b) \
  __CPROVER_ensures(RTS_DONE)
#define LOOPASG_RTS__L_ROWS , m_rc, m_cr, c_scratch_b
#define LOOP_RTS__L_ROWS \
  __CPROVER_loop_invariant(v_row_slot <= g_n) \
  __CPROVER_loop_invariant((v_row_slot > wr) ==> RTS_DONE) \
  __CPROVER_loop_invariant((v_row_slot <= wr) ==> RTS_UNTOUCHED)
#define LOOPASG_RTS__L_COLS , m_rc, m_cr, c_scratch_b
#define LOOP_RTS__L_COLS \
  __CPROVER_loop_invariant(v_row_slot < g_n && v_col_slot > v_row_slot && v_col_slot <= g_n) \
  __CPROVER_loop_invariant((v_row_slot > wr || (v_row_slot == wr && v_col_slot > wc)) ==> RTS_DONE) \
  __CPROVER_loop_invariant((v_row_slot < wr || (v_row_slot == wr && v_col_slot <= wc)) ==> RTS_UNTOUCHED)
/* ---- GetQuotientProjection ---- */
extern uint8_t T_RELW[__CPROVER_constant_infinity_uint];   /* rel(r, w) */
extern uint8_t T_RELV[__CPROVER_constant_infinity_uint];   /* rel(r, v) */
uint64_t w, v, q_w, q_v, q_scratch, g_sz; void* g_vec; _Bool seen_w, seen_v;
#define QG q_w, q_v, q_scratch, g_sz, seen_w, seen_v
#define Q123 ((q_w != UNDEF ==> (q_w <= w && (q_w == w || T_RELW[q_w] != 0) && (q_w == v ==> q_v == v))) && (q_v != UNDEF ==> q_v <= v))
#define CONTRACT_GQP \
  __CPROVER_requires(v_this == g_br && v_quotProj == g_vec && w < g_n && v < g_n && w != v && g_n < UNDEF) \
  __CPROVER_assigns(QG) \
  __CPROVER_ensures(q_w != UNDEF && q_w <= w) \
  __CPROVER_ensures(q_w == w || T_RELW[q_w] != 0) \
  __CPROVER_ensures(q_w == v ==> q_v == v)
#define LOOPASG_GQP__L_INIT , q_w, q_v, q_scratch, seen_w, seen_v
#define LOOP_GQP__L_INIT \
  __CPROVER_loop_invariant(END_GQP__L_INIT.f0 == 0 && g_sz == g_n) \
  __CPROVER_loop_invariant((BEGIN_GQP__L_INIT.f0 == 0) ==> (seen_w && seen_v)) \
  __CPROVER_loop_invariant((seen_w ==> q_w == UNDEF) && (seen_v ==> q_v == UNDEF))
#define LOOPASG_GQP__L_ROWS , q_w, q_v, q_scratch
#define LOOP_GQP__L_ROWS \
  __CPROVER_loop_invariant(v_row_slot <= g_n && g_sz == g_n && Q123) \
  __CPROVER_loop_invariant((v_row_slot > w ==> q_w != UNDEF) && (v_row_slot > v ==> q_v != UNDEF)) \
  __CPROVER_loop_invariant((q_v == v ==> v < v_row_slot) && (q_w == w ==> w < v_row_slot))
#define LOOPASG_GQP__L_COLS , q_w, q_v, q_scratch
#define LOOP_GQP__L_COLS \
  __CPROVER_loop_invariant(v_row_slot < g_n && v_col_slot > v_row_slot && v_col_slot <= g_n && g_sz == g_n && Q123) \
  __CPROVER_loop_invariant((v_row_slot >= w ==> q_w != UNDEF) && (v_row_slot >= v ==> q_v != UNDEF)) \
  __CPROVER_loop_invariant((q_v == v ==> v <= v_row_slot) && (q_w == w ==> w <= v_row_slot) && (v_row_slot == v ==> q_v == v) && (v_row_slot == w ==> q_w == w))
/* ---- DiscontBinaryRelation wrappers ---- */
DBR* g_dbr; void* g_map; uint64_t wi, g_isz, g_at_idx, cell_in, cell_b1, cell_b2, g_rts_calls, g_gqp_calls; _Bool g_b_alt, ins_wi; void* g_inner;
#define DG g_at_idx, cell_in, cell_b1, cell_b2, g_b_alt, ins_wi, g_rts_calls, g_gqp_calls, g_inner
#define CONTRACT_DRTS \
  __CPROVER_requires(v_this == g_dbr && g_rts_calls == 0) \
  __CPROVER_assigns(DG) \
  __CPROVER_ensures(g_rts_calls == 1)
#define CONTRACT_DGQP \
  __CPROVER_requires(v_this == g_dbr && v_quotProj == g_map && g_gqp_calls == 0 && !ins_wi && g_isz < UNDEF) \
  __CPROVER_assigns(DG) \
  __CPROVER_ensures(g_gqp_calls == 1) \
  __CPROVER_ensures(wi < g_isz ==> ins_wi)
#define LOOPASG_DGQP__L_ELEMS , g_at_idx, cell_in, cell_b1, cell_b2, g_b_alt, ins_wi
#define LOOP_DGQP__L_ELEMS \
  __CPROVER_loop_invariant(v_i_slot <= g_isz && g_gqp_calls == 1) \
  __CPROVER_loop_invariant((v_i_slot > wi) ==> ins_wi)
