#define CANARY(n) __CPROVER_assert(0, "canary: " n " reaches the end (must FAIL)")
#define TOK ((uint64_t*)(uintptr_t)8)
_Bool nondet_bool(void); uint64_t nondet_u64(void);
uint64_t SIZE(void* r) { __CPROVER_assert(r == (void*)g_br, "size() of this relation"); return g_n; }
#if defined(HARNESS_h_RTS)
_Bool GET(void* r, uint64_t a, uint64_t b) { __CPROVER_assert(r == (void*)g_br && a < g_n && b < g_n, "C20: get() within the matrix"); if (a == wr && b == wc) return m_rc; if (a == wc && b == wr) return m_cr; return nondet_bool(); }
void SET(void* r, uint64_t a, uint64_t b, _Bool x) { __CPROVER_assert(r == (void*)g_br && a < g_n && b < g_n && a != b, "C20: set() within the matrix, off the diagonal"); if (a == wr && b == wc) m_rc = x; else if (a == wc && b == wr) m_cr = x; else c_scratch_b = x; }
#else
_Bool GET(void* r, uint64_t a, uint64_t b) { __CPROVER_assert(r == (void*)g_br && a < g_n && b < g_n, "C20: get() within the matrix"); if (b == w) return T_RELW[a] != 0; if (b == v) return T_RELV[a] != 0; return nondet_bool(); }
void SET(void* r, uint64_t a, uint64_t b, _Bool x) { __CPROVER_assert(0, "GetQuotientProjection does not write the relation"); }
#endif
/* ---- quotProj as a cell map; the initialisation loop hands every element out once ---- */
void VEC_RESIZE(void* vec, uint64_t n) { __CPROVER_assert(vec == g_vec, "quotProj is resized"); g_sz = n; }
uint64_t* VEC_BEGIN(void* vec) { seen_w = 0; seen_v = 0; return g_sz > 0 ? TOK : (uint64_t*)0; }
uint64_t* VEC_END(void* vec) { return (uint64_t*)0; }
uint64_t* NIT_DEREF(void* it_) { NIT* it = (NIT*)it_; __CPROVER_assert(it->f0 != 0, "no dereference of an end iterator"); _Bool pw = nondet_bool() && !seen_w && w < g_sz; _Bool pv = !pw && nondet_bool() && !seen_v && v < g_sz;
  if (pw) { seen_w = 1; return &q_w; } if (pv) { seen_v = 1; return &q_v; } return &q_scratch; }
void* NIT_INC(void* it_) { NIT* it = (NIT*)it_; it->f0 = nondet_bool() ? TOK : (uint64_t*)0; __CPROVER_assume(it->f0 != 0 || ((seen_w || w >= g_sz) && (seen_v || v >= g_sz))); return it; }
#if defined(HARNESS_h_DGQP)
uint64_t __CPROVER_uninterpreted_IN(uint64_t i); uint64_t __CPROVER_uninterpreted_BWD(uint64_t x);
uint64_t* VEC_AT(void* vec, uint64_t i) { __CPROVER_assert(vec == g_inner && i < g_isz, "C20: innerProj is indexed within its size"); g_at_idx = i; cell_in = __CPROVER_uninterpreted_IN(i); return &cell_in; }
#else
uint64_t* VEC_AT(void* vec, uint64_t i) { __CPROVER_assert(vec == g_vec && i < g_sz, "C20: quotProj is indexed within its size"); if (i == w) return &q_w; if (i == v) return &q_v; q_scratch = nondet_u64(); return &q_scratch; }
#endif
/* ---- wrappers ---- */
#ifdef STUB_RTS
void RTS(BR* r) { __CPROVER_assert(r == &g_dbr->f0, "the inner relation rel_ is restricted"); g_rts_calls++; }
#endif
#ifdef STUB_GQP
void GQP(BR* r, void* vec) { __CPROVER_assert(r == &g_dbr->f0 && vec == g_inner && g_gqp_calls == 0, "the projection of the inner relation rel_ is taken into innerProj"); g_gqp_calls++; }
void VEC_CTOR(void* vec) { g_inner = vec; } void VEC_DTOR(void* vec) { }
uint64_t VEC_SIZE(void* vec) { __CPROVER_assert(vec == g_inner, "size of innerProj"); return g_isz; }
uint64_t* BWD(void* d, uint64_t* x) { __CPROVER_assert(d == (void*)&g_dbr->f2, "the dictionary dict_ of this relation"); g_b_alt = !g_b_alt; if (g_b_alt) { cell_b1 = __CPROVER_uninterpreted_BWD(*x); return &cell_b1; } cell_b2 = __CPROVER_uninterpreted_BWD(*x); return &cell_b2; }
MKPAIR_RET MKPAIR(uint64_t* a, uint64_t* b) { MKPAIR_RET r; r.f0 = *a; r.f1 = *b; return r; }
MAP_INSRET MAP_INSERT(void* m, void* kv) { uint64_t* p = (uint64_t*)kv; __CPROVER_assert(m == g_map, "pairs are inserted into the map passed in");
  __CPROVER_assert(p[0] == __CPROVER_uninterpreted_BWD(g_at_idx) && p[1] == __CPROVER_uninterpreted_BWD(__CPROVER_uninterpreted_IN(g_at_idx)), "C05: the pair inserted is (Bwd(i), Bwd(innerProj[i])) for the index in hand");
  if (g_at_idx == wi) ins_wi = 1; MAP_INSRET r; r.f1 = 1; return r; }
#endif
void h_RTS(void) { g_br = malloc(sizeof *g_br); __CPROVER_assume(g_br && wr < wc && wc < g_n); e_rc0 = nondet_bool(); e_cr0 = nondet_bool(); m_rc = e_rc0; m_cr = e_cr0; RTS(g_br); CANARY("h_RTS"); }
void h_GQP(void) { g_br = malloc(sizeof *g_br); g_vec = malloc(24); __CPROVER_assume(g_br && g_vec && w < g_n && v < g_n && w != v && g_n < UNDEF); GQP(g_br, g_vec); CANARY("h_GQP"); }
void h_DRTS(void) { g_dbr = malloc(sizeof *g_dbr); __CPROVER_assume(g_dbr); g_rts_calls = 0; DRTS(g_dbr); CANARY("h_DRTS"); }
void h_DGQP(void) { g_dbr = malloc(sizeof *g_dbr); g_map = malloc(56); __CPROVER_assume(g_dbr && g_map && g_isz < UNDEF); g_gqp_calls = 0; ins_wi = 0; DGQP(g_dbr, g_map); CANARY("h_DGQP"); }
