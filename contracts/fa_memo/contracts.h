/* Unit fa_memo (DESIGN.md 5-C09): the four memoising comparison closures of ExplicitFAInclusionFunctorCache
   (AddNewPairToAntichain / AddToNext, lambdas lte and gte), both instantiations.
   SUB(x,y) = "macro-state x is included in macro-state y (modulo the preorder)" is uninterpreted: comparator_.lte(x,y) = SUB(x,y),
   comparator_.gte(x,y) = SUB(y,x).  CACHE INVARIANT: every pair in subsetMap_ satisfies SUB, every pair in subsetNotMap_
   satisfies !SUB (assumed when contains() answers true, asserted on every add()).
   Contract of the closures, from the property ("memoised comparisons never change a verdict"):
       lte(l,r) = SUB(l,r)      gte(l,r) = SUB(r,l)      and the cache invariant is preserved. */
void* g_fct;   /* the functor object the closure points to */
uint64_t __CPROVER_uninterpreted_SUB(SS* x, SS* y);
#define SUB(x,y) (__CPROVER_uninterpreted_SUB(x,y) != 0)
#define MAP_SUB    ((void*)&((FCT*)g_fct)->f11)
#define MAP_NOTSUB ((void*)&((FCT*)g_fct)->f12)
#define CONTRACT_I_ANP_LTE __CPROVER_requires((void*)v_this->f0 == g_fct) __CPROVER_assigns() __CPROVER_ensures(__CPROVER_return_value == SUB(v_lss, v_rss))
#define CONTRACT_I_ANP_GTE __CPROVER_requires((void*)v_this->f0 == g_fct) __CPROVER_assigns() __CPROVER_ensures(__CPROVER_return_value == SUB(v_rss, v_lss))
#define CONTRACT_I_ATN_LTE __CPROVER_requires((void*)v_this->f0 == g_fct) __CPROVER_assigns() __CPROVER_ensures(__CPROVER_return_value == SUB(v_lss, v_rss))
#define CONTRACT_I_ATN_GTE __CPROVER_requires((void*)v_this->f0 == g_fct) __CPROVER_assigns() __CPROVER_ensures(__CPROVER_return_value == SUB(v_rss, v_lss))
#define CONTRACT_S_ANP_LTE __CPROVER_requires((void*)v_this->f0 == g_fct) __CPROVER_assigns() __CPROVER_ensures(__CPROVER_return_value == SUB(v_lss, v_rss))
#define CONTRACT_S_ANP_GTE __CPROVER_requires((void*)v_this->f0 == g_fct) __CPROVER_assigns() __CPROVER_ensures(__CPROVER_return_value == SUB(v_rss, v_lss))
#define CONTRACT_S_ATN_LTE __CPROVER_requires((void*)v_this->f0 == g_fct) __CPROVER_assigns() __CPROVER_ensures(__CPROVER_return_value == SUB(v_lss, v_rss))
#define CONTRACT_S_ATN_GTE __CPROVER_requires((void*)v_this->f0 == g_fct) __CPROVER_assigns() __CPROVER_ensures(__CPROVER_return_value == SUB(v_rss, v_lss))
