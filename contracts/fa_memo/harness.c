_Bool nondet_bool(void);
/* rely / guarantee on the two memo tables */
_Bool MTL_CONTAINS(MTL* m, SS* x, SS* y) { _Bool b = nondet_bool();
  if ((void*)m == MAP_SUB) __CPROVER_assume(!b || SUB(x, y));
  else { __CPROVER_assert((void*)m == MAP_NOTSUB, "one of the two memo tables of the functor"); __CPROVER_assume(!b || !SUB(x, y)); }
  return b; }
void MTL_ADD(MTL* m, SS* x, SS* y) {
  if ((void*)m == MAP_SUB) __CPROVER_assert(SUB(x, y), "C09 memo: a pair recorded in subsetMap_ is a true inclusion");
  else { __CPROVER_assert((void*)m == MAP_NOTSUB, "one of the two memo tables of the functor"); __CPROVER_assert(!SUB(x, y), "C09 memo: a pair recorded in subsetNotMap_ is a true non-inclusion"); } }
_Bool CMPI_LTE(CMPI* c, SS* x, SS* y) { return SUB(x, y); }
_Bool CMPI_GTE(CMPI* c, SS* x, SS* y) { return SUB(y, x); }
_Bool CMPS_LTE(CMPS* c, SS* x, SS* y) { return SUB(x, y); }
_Bool CMPS_GTE(CMPS* c, SS* x, SS* y) { return SUB(y, x); }
void HNAME(void) {
  FCT* f = malloc(sizeof *f); __CPROVER_assume(f != 0); g_fct = f;
  CL_T cl; cl.f0 = f;
  SS *a = malloc(sizeof *a), *b = malloc(sizeof *b); __CPROVER_assume(a && b);
  _Bool alias = nondet_bool(); SS* bb = alias ? a : b;      /* the two macro-state pointers may be the same cached set */
  CLOSURE(&cl, a, bb);
  __CPROVER_assert(0, "canary: closure harness reaches the end (must FAIL)");
}
