#define CANARY(n) __CPROVER_assert(0, "canary: " n " reaches the end (must FAIL)")
_Bool nondet_bool(void); uint64_t nondet_u64(void);
#define TOK ((void*)(uintptr_t)8)
#define MAYBE (nondet_bool() ? TOK : (void*)0)
#define TOKV(i) ((void*)(uintptr_t)(((i) + 1) * 8))
#define IDXV(p) ((uint64_t)(uintptr_t)(p) / 8 - 1)
typedef struct { void* p; } ITP;
/* ---- result and tmp ---- */
void BR_RESIZE(void* r, uint64_t n, _Bool dv) { __CPROVER_assert(r == g_res && n == g_size && !dv, "C16: the result is resized to exactly the requested output size (cleared)"); g_resized = 1; }
void ALVV_CTOR(void* a) { } void ALVV_DTOR(void* a) { } void VV_DTOR(void* v) { }
uint64_t PART_SIZE(void* v) { __CPROVER_assert(v == (void*)&g_this->f5, "size of partition_"); return g_N; }
void VV_CTOR(void* v, uint64_t n, void* a) { __CPROVER_assert(n == g_N, "tmp has one vector per block"); g_tmp = v; g_tmp_made = 1; }
void* VV_AT(void* v, uint64_t i) { __CPROVER_assert(g_tmp_made && v == g_tmp && i < g_N, "C20: tmp is indexed within its size"); return TOKV(i); }
/* ---- phase 1: partition_[i] materialises the state list of block i ---- */
SLE* nondet_sle(void);
BLOCK** PART_AT(void* v, uint64_t i) { __CPROVER_assert(v == (void*)&g_this->f5 && i < g_N, "C20: partition_ is indexed within its size");
  if (!g_cur_valid || g_cur != i) {
    g_cur = i; g_cur_valid = 1; xp = nondet_bool(); yp = nondet_bool(); ord = nondet_bool();
    nH->f0 = nondet_u64(); nG0->f0 = nondet_u64(); nX->f0 = nondet_u64(); nG1->f0 = nondet_u64(); nY->f0 = nondet_u64(); nG2->f0 = nondet_u64();
    nH->f2 = nondet_sle(); nG0->f2 = nondet_sle(); nX->f2 = nondet_sle(); nG1->f2 = nondet_sle(); nY->f2 = nondet_sle(); nG2->f2 = nondet_sle();
    __CPROVER_assume(SHAPE); }
  cell_blk = g_blk; return &cell_blk; }
void V_PUSH(void* vec, uint64_t* px) { uint64_t x = *px;
  __CPROVER_assert(g_cur_valid && vec == TOKV(g_cur), "a state is collected into the vector of the block whose list is being traversed");
  __CPROVER_assert(x < g_size, "C16/C20: only states below the requested output size are collected");
  if (x == wr) in_r = 1; if (x == ws) in_s = 1; }
/* ---- phase 2 ---- */
uint64_t* SR_SIZE(void* rel) { __CPROVER_assert(rel == (void*)&g_this->f6, "size of relation_"); cell_rsz = g_N; return &cell_rsz; }
ROWT SR_ROW(void* rel, uint64_t i) { __CPROVER_assert(rel == (void*)&g_this->f6 && i < g_N, "C20: row() within the relation's size"); g_row_i = i; has_j = (i == bi && g_rel_w); ROWT r; r.f0 = 0; r.f1 = 0; return r; }
void ROW_BEGIN(void* it, void* row) { seen_j = 0; cur_j = 0; ((ITP*)it)->p = has_j ? TOK : MAYBE; }
void ROW_END(void* it, void* row) { ((ITP*)it)->p = (void*)0; }
_Bool ITB_NE(void* a, void* b) { return ((ITP*)a)->p != ((ITP*)b)->p; }
void RIT_DTOR(void* it) { }
uint64_t* RIT_DEREF(void* it) { __CPROVER_assert(((ITP*)it)->p != 0, "no dereference of the end iterator of a row");
  cur_j = has_j && nondet_bool() && !seen_j; if (cur_j) seen_j = 1;
  cell_j = nondet_u64(); if (cur_j) cell_j = bj; else __CPROVER_assume(!has_j || cell_j != bj);
  __CPROVER_assume(cell_j < g_N && (g_row_i == bi && cell_j == bj ==> g_rel_w));     /* store invariant of relation_: columns below its size; (bi, bj) stored iff related */
  return &cell_j; }
void* RIT_INC(void* it) { __CPROVER_assert(((ITP*)it)->p != 0, "++ on a dereferenceable row iterator"); ((ITP*)it)->p = MAYBE; __CPROVER_assume(((ITP*)it)->p != 0 || !has_j || seen_j); return it; }
uint64_t* V_BEGIN__L_J(void* vec) { g_r_idx = IDXV(vec); has_r = (g_r_idx == bi && in_r); seen_r = 0; return has_r ? TOK : MAYBE; }
uint64_t* V_BEGIN__L_R(void* vec) { g_s_idx = IDXV(vec); has_s = (g_s_idx == bj && in_s); seen_s = 0; return has_s ? TOK : MAYBE; }
uint64_t* V_END(void* vec) { return (uint64_t*)0; }
uint64_t* NI_DEREF__L_R(void* it) { __CPROVER_assert(((ITP*)it)->p != 0, "no dereference of an end iterator (r)");
  _Bool c = has_r && nondet_bool() && !seen_r; if (c) seen_r = 1;
  cell_r = nondet_u64(); if (c) cell_r = wr; else __CPROVER_assume(!has_r || cell_r != wr);
  __CPROVER_assume(cell_r < g_size && (cell_r == wr ==> g_r_idx == bi) && (cell_r == ws ==> g_r_idx == bj));                            /* store invariant of tmp (asserted at push_back) */
  return &cell_r; }
uint64_t* NI_DEREF__L_S(void* it) { __CPROVER_assert(((ITP*)it)->p != 0, "no dereference of an end iterator (s)");
  _Bool c = has_s && nondet_bool() && !seen_s; if (c) seen_s = 1;
  cell_s = nondet_u64(); if (c) cell_s = ws; else __CPROVER_assume(!has_s || cell_s != ws);
  __CPROVER_assume(cell_s < g_size && (cell_s == wr ==> g_s_idx == bi) && (cell_s == ws ==> g_s_idx == bj));
  return &cell_s; }
void* NI_INC__L_R(void* it) { ((ITP*)it)->p = MAYBE; __CPROVER_assume(((ITP*)it)->p != 0 || !has_r || seen_r); return it; }
void* NI_INC__L_S(void* it) { ((ITP*)it)->p = MAYBE; __CPROVER_assume(((ITP*)it)->p != 0 || !has_s || seen_s); return it; }
void BR_SET(void* res, uint64_t r, uint64_t s, _Bool v) {
  __CPROVER_assert(res == g_res && g_resized, "set on the result after it was resized");
  __CPROVER_assert(v, "C16: buildResult only adds pairs");
  __CPROVER_assert(r < g_size && s < g_size, "C16/C20: only states below the requested output size are reported (inside the matrix made by resize)");
  if (r == wr && s == ws) set_w = 1; }
void h_BRES(void) { g_this = malloc(sizeof *g_this); g_res = malloc(8); g_blk = malloc(sizeof *g_blk);
  nH = malloc(sizeof *nH); nG0 = malloc(sizeof *nG0); nX = malloc(sizeof *nX); nG1 = malloc(sizeof *nG1); nY = malloc(sizeof *nY); nG2 = malloc(sizeof *nG2);
  __CPROVER_assume(g_this && g_res && g_blk && nH && nG0 && nX && nG1 && nY && nG2);
  g_blk->f1 = nH; __CPROVER_assume((wr == ws ==> bi == bj) && bi < g_N && bj < g_N && g_N < ((uint64_t)1 << 48));
  g_resized = g_tmp_made = in_r = in_s = set_w = g_cur_valid = 0;
  BRES(g_this, g_res, g_size); CANARY("h_BRES"); }
