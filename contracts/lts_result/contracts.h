/* Unit lts_result (DESIGN.md 5-C16, 11): SimulationEngine::buildResult(result, size) -- "the result restricted to the requested output size is
   reported for exactly the states below that size".  Two arbitrary witness states wr, ws with blocks bi = BLK(wr), bj = BLK(ws):
     set_w  :=  result.set(wr, ws, true) was called
     POST   :   set_w  <=>  wr < size && ws < size && REL(bi, bj)           (REL = the block relation held by relation_)
   and at every call result.set(r, s, v): v is true, r < size, s < size (C20: inside the matrix that result.resize(size) made), and the blocks
   of r and s are related.  Phase 1 (state lists -> tmp): in_r / in_s := wr / ws was collected into tmp[its block]. */
ENG* g_this; void* g_res; void* g_tmp; uint64_t g_size, g_N, wr, ws, bi, bj; _Bool g_rel_w;
_Bool g_resized, g_tmp_made, in_r, in_s, set_w;
/* phase 1: the circular list of the block under the cursor */
BLOCK* g_blk; BLOCK* cell_blk; SLE *nH, *nG0, *nX, *nG1, *nY, *nG2; uint64_t g_cur; _Bool g_cur_valid, xp, yp, ord;
#define BEQ(a, b) (!(a) == !(b))
#define HR (nH->f0 == wr)
#define HS (nH->f0 == ws)
#define NR (g_cur == bi && !HR)
#define NS (g_cur == bj && !HS && ws != wr)
#define E1 (yp ? nY : nH)
#define E0 (xp ? nX : nH)
#define GEN(n) ((n)->f0 != wr && (n)->f0 != ws)
#define SHAPE (g_cur_valid && BEQ(xp, NR || NS) && BEQ(yp, NR && NS) && (HR ==> g_cur == bi) && (HS ==> g_cur == bj) && GEN(nG0) && GEN(nG1) && GEN(nG2) \
   && (xp ==> nX->f0 == (yp ? (ord ? wr : ws) : (NR ? wr : ws))) && (yp ==> nY->f0 == (ord ? ws : wr)) \
   && (nH->f2 == nG0 || nH->f2 == E0) && (nG0->f2 == nG0 || nG0->f2 == E0) && (nX->f2 == nG1 || nX->f2 == E1) && (nG1->f2 == nG1 || nG1->f2 == E1) \
   && (nY->f2 == nG2 || nY->f2 == nH) && (nG2->f2 == nG2 || nG2->f2 == nH))
#define GOT(n) (((n)->f0 == wr && wr < g_size ==> in_r) && ((n)->f0 == ws && ws < g_size ==> in_s))
#define SOUND1 ((in_r ==> wr < g_size) && (in_s ==> ws < g_size))
#define G_NODES nH->f0, nH->f2, nX->f0, nX->f2, nY->f0, nY->f2, G_GEN
#define G_GEN   nG0->f0, nG0->f2, nG1->f0, nG1->f2, nG2->f0, nG2->f2
/* phase 2 */
uint64_t g_row_i, cell_rsz, cell_j, cell_r, cell_s, g_r_idx, g_s_idx; _Bool has_j, seen_j, cur_j, has_r, seen_r, has_s, seen_s;
#define SOUND2 (set_w ==> (wr < g_size && ws < g_size && g_rel_w))
#define G_S  seen_s, cell_s, set_w
#define G_R  G_S, seen_r, cell_r, g_s_idx, has_s
#define G_J  G_R, seen_j, cur_j, cell_j, g_r_idx, has_r
#define G_I  G_J, has_j, g_row_i, cell_rsz
#define CONTRACT_BRES \
  __CPROVER_requires(v_this == g_this && v_result == g_res && v_size == g_size && !g_resized && !g_tmp_made && !in_r && !in_s && !set_w && !g_cur_valid) \
  __CPROVER_assigns(G_I, G_NODES, g_cur, g_cur_valid, xp, yp, ord, in_r, in_s, cell_blk, g_resized, g_tmp_made, g_tmp) \
  __CPROVER_ensures(g_resized) \
  __CPROVER_ensures(BEQ(set_w, wr < g_size && ws < g_size && g_rel_w))
#define LOOPASG_BRES__L_BLOCKS , G_NODES, g_cur, g_cur_valid, xp, yp, ord, in_r, in_s, cell_blk
#define LOOP_BRES__L_BLOCKS \
  __CPROVER_loop_invariant(v_i_slot <= g_N && (g_cur_valid ==> g_cur < v_i_slot) && SOUND1) \
  __CPROVER_loop_invariant((v_i_slot > bi && wr < g_size) ==> in_r) \
  __CPROVER_loop_invariant((v_i_slot > bj && ws < g_size) ==> in_s)
#define LOOPASG_BRES__L_LIST , G_GEN, in_r, in_s, cell_blk
#define LOOP_BRES__L_LIST \
  __CPROVER_loop_invariant(SHAPE && g_cur == v_i_slot && v_i_slot < g_N && SOUND1) \
  __CPROVER_loop_invariant(v_elem_slot == nH || v_elem_slot == nG0 || (xp && (v_elem_slot == nX || v_elem_slot == nG1)) || (yp && (v_elem_slot == nY || v_elem_slot == nG2))) \
  __CPROVER_loop_invariant((v_i_slot > bi && wr < g_size) ==> in_r) \
  __CPROVER_loop_invariant((v_i_slot > bj && ws < g_size) ==> in_s) \
  __CPROVER_loop_invariant(v_elem_slot != nH ==> GOT(nH)) \
  __CPROVER_loop_invariant((xp && (v_elem_slot == nG1 || v_elem_slot == nY || v_elem_slot == nG2)) ==> GOT(nX)) \
  __CPROVER_loop_invariant((yp && v_elem_slot == nG2) ==> GOT(nY))
#define LOOPASG_BRES__L_I , G_I
#define LOOP_BRES__L_I \
  __CPROVER_loop_invariant(v_i15_slot <= g_N && SOUND2) \
  __CPROVER_loop_invariant((v_i15_slot > bi && in_r && in_s && g_rel_w) ==> set_w)
#define LOOPASG_BRES__L_J , G_J
#define LOOP_BRES__L_J \
  __CPROVER_loop_invariant(__CPROVER_loop_entry(set_w) ==> set_w) \
  __CPROVER_loop_invariant(END_BRES__L_J.f0.f0 == 0 && SOUND2 && g_row_i == v_i15_slot && v_i15_slot < g_N && BEQ(has_j, g_row_i == bi && g_rel_w)) \
  __CPROVER_loop_invariant((has_j && BEGIN_BRES__L_J.f0.f0 == 0) ==> seen_j) \
  __CPROVER_loop_invariant((has_j && seen_j && in_r && in_s) ==> set_w)
#define LOOPASG_BRES__L_R , G_R
#define LOOP_BRES__L_R \
  __CPROVER_loop_invariant(__CPROVER_loop_entry(set_w) ==> set_w) \
  __CPROVER_loop_invariant(END_BRES__L_R.f0 == 0 && SOUND2 && BEQ(has_r, g_r_idx == bi && in_r)) \
  __CPROVER_loop_invariant((has_r && BEGIN_BRES__L_R.f0 == 0) ==> seen_r) \
  __CPROVER_loop_invariant((cur_j && has_r && seen_r && in_s) ==> set_w)
#define LOOPASG_BRES__L_S , G_S
#define LOOP_BRES__L_S \
  __CPROVER_loop_invariant(__CPROVER_loop_entry(set_w) ==> set_w) \
  __CPROVER_loop_invariant(END_BRES__L_S.f0 == 0 && SOUND2 && BEQ(has_s, g_s_idx == bj && in_s)) \
  __CPROVER_loop_invariant((has_s && BEGIN_BRES__L_S.f0 == 0) ==> seen_s) \
  __CPROVER_loop_invariant((has_s && seen_s && cell_r == wr) ==> set_w)
