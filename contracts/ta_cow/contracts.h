/* Unit ta_cow (DESIGN.md 5-C11): copy-on-write of the three-level rule store of ExplicitTreeAutCore.
   "Every mutating path first makes the map, the cluster and the tuple set unique": each unique* function returns an exclusively owned
   object with the old content and leaves a shared old object untouched (except for its owner count); every container-mutating
   library call (stub) REQUIRES that the container is exclusively owned -- that single requires-clause is the copy-on-write discipline. */
#include "common/sp_ghost.h"
/* entry-value ghosts */
void* g_old_obj; struct GC* g_old_ctrl; uint64_t g_old_count, g_old_content; _Bool g_existed, g_was_null;
uint64_t g_tset_inserts, g_map_clears, g_efs_calls; void* g_ins_arg; void* g_ins_set; uint64_t g_key;
MAP_E cell_me; CLU_E cell_ce;                 /* the entry of the map / cluster for the key in hand (witness entry) */
#define COW_GHOSTS SP_GHOSTS, g_tset_inserts, g_map_clears, g_efs_calls, g_ins_arg, g_ins_set, g_existed, g_was_null, cell_me, cell_ce
/* what every unique* function promises about the handle `sp` it returns, given the old object / control block / count / content */
#define POST_UNIQUE(sp) \
  __CPROVER_ensures(SP_PTR(sp) != 0 && SP_CTRL(sp) != 0 && SP_CTRL(sp)->count == 1 && OWNERS(SP_PTR(sp)) == SP_CTRL(sp))                       /* exclusively owned */ \
  __CPROVER_ensures(g_old_obj != 0 ==> CONTENT(SP_PTR(sp)) == g_old_content)                                                                     /* same content */ \
  __CPROVER_ensures((g_old_obj != 0 && g_old_count == 1) ==> ((void*)SP_PTR(sp) == g_old_obj && SP_CTRL(sp) == g_old_ctrl))                    /* already unique: kept */ \
  __CPROVER_ensures((g_old_obj != 0 && g_old_count > 1) ==> ((void*)SP_PTR(sp) != g_old_obj && g_old_ctrl->count == g_old_count - 1 && CONTENT(g_old_obj) == g_old_content))  /* shared: the others keep theirs */
#define PRE_OLD(sp) ((void*)SP_PTR(sp) == g_old_obj && SP_CTRL(sp) == g_old_ctrl && (g_old_obj != 0 ==> (g_old_ctrl != 0 && g_old_ctrl->count == g_old_count && g_old_count >= 1 && g_old_ctrl->local == 0 && CONTENT(g_old_obj) == g_old_content && OWNERS(g_old_obj) == g_old_ctrl)))

#define CONTRACT_UCM \
  __CPROVER_requires(PRE_OLD(&v_this->f2) && g_old_obj != 0) \
  __CPROVER_assigns(COW_GHOSTS, v_this->f2.f0.f0, v_this->f2.f0.f1.f0, g_old_ctrl->count) \
  __CPROVER_ensures(__CPROVER_return_value == &v_this->f2) \
  POST_UNIQUE(&v_this->f2)
/* uniqueCluster / uniqueTuplePtrSet: `this` must be exclusively owned (callers made it unique first); the entry for the key is created if absent */
#define CONTRACT_UC \
  __CPROVER_requires(EXCL(v_this) && PRE_OLD(&cell_me.f1) && g_key == *v_state) \
  __CPROVER_assigns(COW_GHOSTS; g_old_ctrl != 0: g_old_ctrl->count) \
  __CPROVER_ensures(__CPROVER_return_value == &cell_me.f1 && cell_me.f0 == g_key) \
  POST_UNIQUE(&cell_me.f1)
#define CONTRACT_UTS \
  __CPROVER_requires(EXCL(v_this) && PRE_OLD(&cell_ce.f1) && g_key == *v_symbol) \
  __CPROVER_assigns(COW_GHOSTS; g_old_ctrl != 0: g_old_ctrl->count) \
  __CPROVER_ensures(__CPROVER_return_value == &cell_ce.f1 && cell_ce.f0 == g_key) \
  POST_UNIQUE(&cell_ce.f1)
/* internalAddTransition: exactly one insert, of the given tuple, into a tuple set; nothing shared is written (call-site requires of the stubs) */
#define CONTRACT_IAT \
  __CPROVER_requires(g_tset_inserts == 0 && PRE_OLD(&v_this->f2) && g_old_obj != 0) \
  __CPROVER_assigns(COW_GHOSTS, v_this->f2.f0.f0, v_this->f2.f0.f1.f0, g_old_ctrl->count) \
  __CPROVER_ensures(g_tset_inserts == 1 && g_ins_arg == (void*)v_children) \
  __CPROVER_ensures(g_old_count > 1 ==> CONTENT(g_old_obj) == g_old_content)      /* a shared map keeps its content */
/* Clear: the automaton ends with an empty, exclusively owned map; a shared old map is left alone; final states erased once */
#define CONTRACT_CLEAR \
  __CPROVER_requires(PRE_OLD(&v_this->f2) && g_old_obj != 0 && g_efs_calls == 0 && g_map_clears == 0) \
  __CPROVER_assigns(COW_GHOSTS, v_this->f2.f0.f0, v_this->f2.f0.f1.f0, g_old_ctrl->count; g_old_count == 1: CONTENT(g_old_obj)) \
  __CPROVER_ensures(SP_PTR(&v_this->f2) != 0 && SP_CTRL(&v_this->f2)->count == 1 && CONTENT(SP_PTR(&v_this->f2)) == 0 && g_efs_calls == 1) \
  __CPROVER_ensures(g_old_count > 1 ==> ((void*)SP_PTR(&v_this->f2) != g_old_obj && g_old_ctrl->count == g_old_count - 1 && CONTENT(g_old_obj) == g_old_content && g_map_clears == 0))
/* AreTransitionsEmpty: answers for the content; never writes a shared map */
#define CONTRACT_ATE \
  __CPROVER_requires(PRE_OLD(&v_this->f2) && g_old_obj != 0) \
  __CPROVER_assigns(COW_GHOSTS, v_this->f2.f0.f0, v_this->f2.f0.f1.f0, g_old_ctrl->count) \
  __CPROVER_ensures(__CPROVER_return_value == (g_old_content == 0) && CONTENT(g_old_obj) == g_old_content && CONTENT(SP_PTR(&v_this->f2)) == g_old_content)
