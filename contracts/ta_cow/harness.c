#include "common/sp_stubs.h"
#define CANARY(n) __CPROVER_assert(0, "canary: " n " reaches the end (must FAIL)")
_Bool nondet_bool(void);
#define TOKEN(T) ((T)(uintptr_t)8)
#define COW_WRITE(o, what) __CPROVER_assert(EXCL(o), "C11 copy-on-write: " what " that is written is exclusively owned (no other automaton shares it)")
/* ---- shared_ptr instantiations ---- */
DEF_SP_UNIQUE(SPM_UNIQUE, SPMB) DEF_SP_RAW(SPM_RAW, SPM, MAP) DEF_SP_DTOR(SPM_DTOR, SPM) DEF_SP_MOVEASG(SPM_MOVEASG, SPM)
DEF_SP_UNIQUE(SPC_UNIQUE, SPCB) DEF_SP_RAW(SPC_RAW, SPC, CLU) DEF_SP_DTOR(SPC_DTOR, SPC) DEF_SP_MOVEASG(SPC_MOVEASG, SPC) DEF_SP_NULL(SPC_NULL, SPC) DEF_SP_BOOL(SPC_BOOL, SPCB)
DEF_SP_UNIQUE(SPT_UNIQUE, SPTB) DEF_SP_RAW(SPT_RAW, SPT, TSET) DEF_SP_DTOR(SPT_DTOR, SPT) DEF_SP_MOVEASG(SPT_MOVEASG, SPT) DEF_SP_NULL(SPT_NULL, SPT) DEF_SP_BOOL(SPT_BOOL, SPTB)
DEF_SP_USECOUNT(SPM_USECOUNT, SPMB) DEF_SP_USECOUNT(SPC_USECOUNT, SPCB) DEF_SP_USECOUNT(SPT_USECOUNT, SPTB)
DEF_MK_SHARED(mk_map, SPM, MAP) DEF_MK_SHARED(mk_clu, SPC, CLU) DEF_MK_SHARED(mk_tset, SPT, TSET)
/* ---- containers: constructors copy / reset the abstract content, nothing else is observable ---- */
void MAP_COPY(MAP* d, MAP* s) { CONTENT(d) = CONTENT(s); OWNERS(d) = 0; }
void MAP_NEW(MAP* d) { CONTENT(d) = 0; OWNERS(d) = 0; }
void CLU_COPY(CLU* d, CLU* s) { CONTENT(d) = CONTENT(s); OWNERS(d) = 0; }
void CLU_NEW(CLU* d) { CONTENT(d) = 0; OWNERS(d) = 0; }
void TSET_COPY(TSET* d, TSET* s) { CONTENT(d) = CONTENT(s); OWNERS(d) = 0; }
void TSET_NEW(TSET* d) { CONTENT(d) = 0; OWNERS(d) = 0; }
/* ---- mutating library calls: REQUIRE exclusive ownership of the container ---- */
void MAP_MKPAIR(MAP_PAIR* ret, uint64_t* k, SPC* v) { ret->f0 = *k; SP_PTR(&ret->f1) = SP_PTR(v); SP_CTRLV(&ret->f1) = SP_CTRLV(v); SP_PTR(v) = 0; SP_CTRLV(v) = 0; }
void MAP_PAIRDTOR(MAP_PAIR* p) { sp_release_((void**)&SP_PTR(&p->f1), (void**)&SP_CTRLV(&p->f1)); }
MAP_INSRET MAP_INSERT(MAP* m, MAP_INSARG* kv) { COW_WRITE(m, "the cluster map");
  /* witness entry: either the key is already present (entry as set up by the harness) or a new entry with the given (null) value */
  if (!g_existed) { cell_me.f0 = kv->f0; SP_PTR(&cell_me.f1) = 0; SP_CTRLV(&cell_me.f1) = 0; } else cell_me.f0 = kv->f0;
  MAP_INSRET r; r.f0 = TOKEN(__typeof__(r.f0)); r.f1 = !g_existed; return r; }
MAP_E* MAP_ARROW(MAP_IT* it) { __CPROVER_assert(it->f0.f0 != 0, "-> on a valid map iterator"); return &cell_me; }
void MAP_CLEAR(MAP* m) { COW_WRITE(m, "the cluster map"); CONTENT(m) = 0; g_map_clears++; }
_Bool MAP_EMPTY(MAP* m) { return CONTENT(m) == 0; }
void CLU_MKPAIR(CLU_PAIR* ret, uint64_t* k, SPT* v) { ret->f0 = *k; SP_PTR(&ret->f1) = SP_PTR(v); SP_CTRLV(&ret->f1) = SP_CTRLV(v); SP_PTR(v) = 0; SP_CTRLV(v) = 0; }
void CLU_PAIRDTOR(CLU_PAIR* p) { sp_release_((void**)&SP_PTR(&p->f1), (void**)&SP_CTRLV(&p->f1)); }
CLU_INSRET CLU_INSERT(CLU* c, CLU_INSARG* kv) { COW_WRITE(c, "the transition cluster");
  if (!g_existed) { cell_ce.f0 = kv->f0; SP_PTR(&cell_ce.f1) = 0; SP_CTRLV(&cell_ce.f1) = 0; } else cell_ce.f0 = kv->f0;
  CLU_INSRET r; r.f0 = TOKEN(__typeof__(r.f0)); r.f1 = !g_existed; return r; }
CLU_E* CLU_ARROW(CLU_IT* it) { __CPROVER_assert(it->f0.f0 != 0, "-> on a valid cluster iterator"); return &cell_ce; }
TSET_INSRET TSET_INSERT(TSET* t, TUPP* x) { COW_WRITE(t, "the tuple set"); g_tset_inserts++; g_ins_arg = (void*)x; g_ins_set = (void*)t; TSET_INSRET r; r.f1 = nondet_bool(); return r; }
void EFS(AUT* a) { g_efs_calls++; }
/* ---- contract stubs of the three unique* functions for their callers (same statements as POST_UNIQUE) ---- */
#ifdef STUB_UCM
SPM* UCM(AUT* a) { SPM* sp = &a->f2; __CPROVER_assert(SP_PTR(sp) != 0, "uniqueClusterMap precondition: the automaton has a map");
  if (SP_CTRL(sp)->count != 1) { SPM_DTOR(sp); MAP* m = malloc(sizeof *m); __CPROVER_assume(m != 0); SPM_RAW(sp, m); } return sp; }
#endif
#ifdef STUB_UC
SPC* UC(MAP* m, uint64_t* st) { __CPROVER_assert(EXCL(m), "C11 precondition of uniqueCluster: the cluster map is exclusively owned");
  CLU* c = malloc(sizeof *c); __CPROVER_assume(c != 0); SPC_RAW(&cell_me.f1, c); cell_me.f0 = *st; return &cell_me.f1; }
#endif
#ifdef STUB_UTS
SPT* UTS(CLU* c, uint64_t* sy) { __CPROVER_assert(EXCL(c), "C11 precondition of uniqueTuplePtrSet: the transition cluster is exclusively owned");
  TSET* t = malloc(sizeof *t); __CPROVER_assume(t != 0); SPT_RAW(&cell_ce.f1, t); cell_ce.f0 = *sy; return &cell_ce.f1; }
#endif
/* ---- harnesses ---- */
static void bind_old(void* obj, void* ctrl) { g_old_obj = obj; g_old_ctrl = (struct GC*)ctrl; if (obj) { g_old_count = g_old_ctrl->count; g_old_content = CONTENT(obj); } }
static AUT* mk_aut(void) { AUT* a = malloc(sizeof *a); __CPROVER_assume(a != 0); mk_map(&a->f2); return a; }
void h_UCM(void) { AUT* a = mk_aut(); bind_old(SP_PTR(&a->f2), SP_CTRLV(&a->f2)); UCM(a); CANARY("h_UCM"); }
void h_UC(void) { SPM own; mk_map(&own); __CPROVER_assume(SP_CTRL(&own)->count == 1); MAP* m = SP_PTR(&own); uint64_t st; g_key = st;
  g_existed = nondet_bool(); _Bool nul = nondet_bool(); if (g_existed && !nul) mk_clu(&cell_me.f1); else { SP_PTR(&cell_me.f1) = 0; SP_CTRLV(&cell_me.f1) = 0; }
  bind_old(SP_PTR(&cell_me.f1), SP_CTRLV(&cell_me.f1)); UC(m, &st); CANARY("h_UC"); }
void h_UTS(void) { SPC own; mk_clu(&own); __CPROVER_assume(SP_CTRL(&own)->count == 1); CLU* c = SP_PTR(&own); uint64_t sy; g_key = sy;
  g_existed = nondet_bool(); _Bool nul = nondet_bool(); if (g_existed && !nul) mk_tset(&cell_ce.f1); else { SP_PTR(&cell_ce.f1) = 0; SP_CTRLV(&cell_ce.f1) = 0; }
  bind_old(SP_PTR(&cell_ce.f1), SP_CTRLV(&cell_ce.f1)); UTS(c, &sy); CANARY("h_UTS"); }
void h_IAT(void) { AUT* a = mk_aut(); TUPP* t = malloc(sizeof *t); __CPROVER_assume(t != 0); uint64_t sy, st; g_tset_inserts = 0; bind_old(SP_PTR(&a->f2), SP_CTRLV(&a->f2)); IAT(a, t, &sy, &st); CANARY("h_IAT"); }
void h_CLEAR(void) { AUT* a = mk_aut(); bind_old(SP_PTR(&a->f2), SP_CTRLV(&a->f2)); g_efs_calls = 0; g_map_clears = 0; CLEAR(a); CANARY("h_CLEAR"); }
void h_ATE(void) { AUT* a = mk_aut(); bind_old(SP_PTR(&a->f2), SP_CTRLV(&a->f2)); ATE(a); CANARY("h_ATE"); }
