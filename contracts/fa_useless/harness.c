#define CANARY(n) __CPROVER_assert(0, "canary: " n " reaches the end (must FAIL)")
void RUNR(void* ret, void* self, void* tm) {
  if (g_step == 0) { __CPROVER_assert(self == (void*)g_this && tm == g_tm, "C10 useless removal, stage 1: forward reachability on *this, reporting into the caller's translation map"); g_t1 = ret; g_step = 1; }
  else { __CPROVER_assert(g_step == 2 && self == g_t2 && tm == (void*)0, "C10 useless removal, stage 3: forward reachability on the reversed automaton of stage 2, without a translation map"); g_t3 = ret; g_step = 3; }
  __CPROVER_assert(ret != (void*)g_ret, "the intermediate results are temporaries"); }
void REV(void* ret, void* self, void* tm) {
  if (g_step == 1) { __CPROVER_assert(self == g_t1 && ret != (void*)g_ret && (tm == g_tm || tm == (void*)0), "C10 useless removal, stage 2: reversal of the result of stage 1"); g_t2 = ret; g_step = 2; }
  else { __CPROVER_assert(g_step == 3 && self == g_t3 && ret == (void*)g_ret && tm == (void*)0, "C10 useless removal, stage 4: the automaton returned is the reversal of the result of stage 3"); g_step = 4; } }
void AUT_DTOR(void* a) { __CPROVER_assert(g_step == 4 && (a == g_t1 || a == g_t2 || a == g_t3), "only the three temporaries are destroyed, after the result was built"); if (a == (void*)g_ret) g_ret_destroyed = 1; g_dtors++; }
void h_RUSL(void) { g_this = malloc(sizeof *g_this); g_ret = malloc(sizeof *g_ret); __CPROVER_assume(g_this && g_ret); g_step = 0; g_dtors = 0; g_ret_destroyed = 0;
  RUSL(g_ret, g_this, g_tm); CANARY("h_RUSL"); }
