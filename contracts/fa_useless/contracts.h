/* Unit fa_useless (DESIGN.md 5-C10, 11): ExplicitFiniteAutCore::RemoveUselessStates as a composition -- "forward reachability, reverse, forward
   reachability, reverse".  g_step counts the stages; each stub asserts that it is applied to the object the stage before produced:
     1  t1 = this->RemoveUnreachableStates(pTranslMap)       (language preserved: unit fa_unreach)
     2  t2 = t1.Reverse(.)                                    (mirror language: unit fa_reverse)
     3  t3 = t2.RemoveUnreachableStates(nullptr)              (the caller's translation map is NOT written a second time)
     4  result = t3.Reverse(.)                                (mirror of the mirror)
   so the result accepts L(this) and, by the two closure properties, keeps exactly the states that are reachable AND co-reachable.
   The three temporaries are destroyed, the result is not. */
AUT *g_this, *g_ret; void *g_tm, *g_t1, *g_t2, *g_t3; uint64_t g_step, g_dtors; _Bool g_ret_destroyed;
#define CONTRACT_RUSL \
  __CPROVER_requires(v_this == g_this && v_agg_result == g_ret && v_pTranslMap == g_tm && g_step == 0 && g_dtors == 0 && !g_ret_destroyed) \
  __CPROVER_assigns(g_t1, g_t2, g_t3, g_step, g_dtors, g_ret_destroyed) \
  __CPROVER_ensures(g_step == 4 && g_dtors == 3 && !g_ret_destroyed)
