/* Unit ta_candidate (DESIGN.md 5-C15, 11): ExplicitTreeAutCore::GetCandidateTree -- the bottom-up productivity search of RemoveUselessStates that
   stops at the first productive FINAL state and keeps ONE justifying rule per newly reached state (all leaf rules are kept).
   Same tracked objects as unit ta_useless (witness rule W = (wq, wa, wtid) with witness child wc, its info cell_tiw, witness final state wf), plus an
   ARBITRARY state wx with just_wx = "reachableTransitions holds a rule whose parent is wx".
   SUB-LANGUAGE (first clause of C15): every rule added to the result is the (children, symbol, parent) of an info built from the rule of *this under
     the cursor; only final states of *this are made final; or the whole cluster map of *this is shared (shortcut, taken iff the counter spec is 0).
   WITNESS EXISTS (second clause), machine-checked parts:
   (K1) every state entering the computed set / the work list is productive (T_PROD);
   (K2) every state of the computed set has a justifying rule kept:  r_wx ==> just_wx;
   (K3) a kept non-leaf rule has had its witness child processed (so its children are in the set):  rt_w && !w_leaf ==> r_wc;   leaf rules: has_w && w_leaf ==> rt_w;
   (K4) every final state of *this that is in the computed set is final in the result, and no other;  the result goes through RemoveUnreachableStates;
   (K6) the search only stops when a productive final state was found or the work list is exhausted (!g_found_f ==> !pend_wc).
   NOT decided: completeness of the search (that a productive final state is eventually reached) -- trusted contract of reachedBy, as in ta_useless. */
#include "common/sp_ghost.h"
extern uint8_t T_PROD[__CPROVER_constant_infinity_uint];
void* VERIF_new(uint64_t n); void VERIF_delete(void* p);
uint64_t wq, wa, wtid, wc, wf, wx; _Bool has_w, w_leaf, fin_wf;
_Bool g_found_f, g_new, r_wc, r_wf, r_wx, just_wx, pend_wc, rt_w, sm_w, w_erased, q_is_wc, ssf_w, iat_w, g_shortcut, g_find_hit;
_Bool seen_q, cur_q, seen_a, cur_a, seen_t, cur_t, seen_c, cur_c, seen_i, seen_f, cur_f, seen_k;
uint64_t g_rem, g_cq, g_sm_key, g_q, g_back, g_cur_f, cell_child, cell_back, cell_f; uint8_t g_ret_kind;
E_CMAP cell_cm; E_CLU cell_clu; SPV cell_tup; E_SM cell_sm; TIP cell_tip; TI cell_tiw, cell_tio; void* g_cur_kept;
AUT *g_this, *g_ret; void *g_local, *m_this;
#define TOKT_W ((void*)(uintptr_t)4096)   /* the tuple of the witness rule */
#define TOKT_O ((void*)(uintptr_t)8192)   /* any other tuple */
#define BEQ(a, b) (!(a) == !(b))      /* equality of truth values: a havocked _Bool need not be 0 / 1 */
#define CONS    ((wc != wf || BEQ(r_wc, r_wf)) && (wc != wx || BEQ(r_wc, r_wx)) && (wf != wx || BEQ(r_wf, r_wx)) && (r_wx ==> just_wx))
#define DONE_W  (w_leaf ? rt_w : sm_w)
#define R_G     r_wc, r_wf, r_wx, just_wx, pend_wc, g_new, g_found_f
#define G_CHILD seen_c, cur_c, cell_child, cell_sm, g_sm_key, sm_w, g_rem
#define G_TUP   G_CHILD, seen_t, cur_t, cell_tup, rt_w, R_G, cell_tip, cell_tio
#define G_SYMS  G_TUP, seen_a, cur_a, cell_clu
#define G_OWN   G_SYMS, seen_q, cur_q, cell_cm, g_cq
#define G_INFOS R_G, rt_w, w_erased, seen_i, cell_tip, cell_tio, g_rem
#define G_WORK  G_INFOS, q_is_wc, g_q, g_back, cell_back, cell_sm, g_sm_key
#define G_FIN   seen_f, cur_f, cell_f, g_cur_f, g_find_hit, ssf_w
#define G_KEPT  seen_k, cell_tip, cell_tio, g_cur_kept, iat_w
#define CONTRACT_CAND \
  __CPROVER_requires(v_this == g_this && v_agg_result == g_ret && g_ret_kind == 0 && g_rem == 0 && !rt_w && !sm_w && !w_erased && !ssf_w && !iat_w && !g_shortcut && !just_wx && !g_found_f) \
  __CPROVER_requires(SP_PTR(&cell_tiw.f0) == TOKT_W && cell_tiw.f1 == wa && cell_tiw.f2 == wq) \
  __CPROVER_assigns(G_OWN, G_WORK, G_FIN, G_KEPT, g_local, g_shortcut, g_ret_kind) \
  __CPROVER_ensures(g_ret_kind == 1) \
  __CPROVER_ensures((has_w && w_leaf) ==> rt_w) \
  __CPROVER_ensures((has_w && !w_leaf) ==> sm_w) \
  __CPROVER_ensures((rt_w && !w_leaf) ==> (w_erased && r_wc)) \
  __CPROVER_ensures(g_shortcut ? g_rem == 0 : (g_rem != 0 && BEQ(rt_w, iat_w))) \
  __CPROVER_ensures(BEQ(ssf_w, fin_wf && r_wf)) \
  __CPROVER_ensures(r_wx ==> just_wx) \
  __CPROVER_ensures(!g_found_f ==> !pend_wc)
#define P1 __CPROVER_loop_invariant(!g_found_f && CONS && v_remaining_slot == g_rem && BEQ(r_wc, pend_wc) && (rt_w ==> w_leaf) && (sm_w ==> !w_leaf) && !w_erased)
#define LOOPASG_CAND__L_OWNERS , G_OWN
#define LOOP_CAND__L_OWNERS P1 \
  __CPROVER_loop_invariant(END_CAND__L_OWNERS.f0.f0 == 0) \
  __CPROVER_loop_invariant((has_w && BEGIN_CAND__L_OWNERS.f0.f0 == 0) ==> seen_q) \
  __CPROVER_loop_invariant((has_w && seen_q) ==> DONE_W)
#define LOOPASG_CAND__L_SYMS , G_SYMS
#define LOOP_CAND__L_SYMS P1 \
  __CPROVER_loop_invariant(END_CAND__L_SYMS.f0.f0 == 0) \
  __CPROVER_loop_invariant((has_w && cur_q && BEGIN_CAND__L_SYMS.f0.f0 == 0) ==> seen_a) \
  __CPROVER_loop_invariant((has_w && cur_q && seen_a) ==> DONE_W) \
  __CPROVER_loop_invariant((has_w && !cur_q && seen_q) ==> DONE_W)
#define LOOPASG_CAND__L_TUPLES , G_TUP
#define LOOP_CAND__L_TUPLES P1 \
  __CPROVER_loop_invariant(END_CAND__L_TUPLES.f0 == 0) \
  __CPROVER_loop_invariant((has_w && cur_q && cur_a && BEGIN_CAND__L_TUPLES.f0 == 0) ==> seen_t) \
  __CPROVER_loop_invariant((has_w && cur_q && cur_a && seen_t) ==> DONE_W) \
  __CPROVER_loop_invariant((has_w && cur_q && !cur_a && seen_a) ==> DONE_W) \
  __CPROVER_loop_invariant((has_w && !cur_q && seen_q) ==> DONE_W)
#define LOOPASG_CAND__L_CHILDSET , G_CHILD
#define LOOP_CAND__L_CHILDSET P1 \
  __CPROVER_loop_invariant(END_CAND__L_CHILDSET.f0 == 0 && ((has_w && cur_q && cur_a && cur_t) ==> !w_leaf)) \
  __CPROVER_loop_invariant((has_w && cur_q && cur_a && cur_t && BEGIN_CAND__L_CHILDSET.f0 == 0) ==> seen_c) \
  __CPROVER_loop_invariant((has_w && cur_q && cur_a && cur_t && seen_c) ==> sm_w) \
  __CPROVER_loop_invariant((has_w && cur_q && cur_a && !cur_t && seen_t) ==> DONE_W) \
  __CPROVER_loop_invariant((has_w && cur_q && !cur_a && seen_a) ==> DONE_W) \
  __CPROVER_loop_invariant((has_w && !cur_q && seen_q) ==> DONE_W)
#define P2 __CPROVER_loop_invariant(!g_found_f && CONS && v_remaining_slot == g_rem && (has_w ==> DONE_W) && (pend_wc ==> r_wc) && (w_erased ==> r_wc) && ((rt_w && !w_leaf) ==> w_erased))
#define LOOPASG_CAND__L_WORK , G_WORK
#define LOOP_CAND__L_WORK P2 \
  __CPROVER_loop_invariant((r_wc && !pend_wc && sm_w) ==> w_erased)
#define LOOPASG_CAND__L_INFOS , G_INFOS
#define LOOP_CAND__L_INFOS P2 \
  __CPROVER_loop_invariant(END_CAND__L_INFOS.f0 == 0 && T_PROD[g_q] != 0 && cell_sm.f0 == g_q && BEQ(q_is_wc, g_q == wc) && (q_is_wc ==> (r_wc && !pend_wc))) \
  __CPROVER_loop_invariant((!q_is_wc && r_wc && !pend_wc && sm_w) ==> w_erased) \
  __CPROVER_loop_invariant((q_is_wc && sm_w && BEGIN_CAND__L_INFOS.f0 == 0) ==> seen_i) \
  __CPROVER_loop_invariant((q_is_wc && sm_w && seen_i) ==> w_erased)
#define LOOPASG_CAND__L_FINALS , G_FIN
#define LOOP_CAND__L_FINALS \
  __CPROVER_loop_invariant(END_CAND__L_FINALS.f0.f0 == 0 && g_local == (void*)&v_result_slot) \
  __CPROVER_loop_invariant((fin_wf && BEGIN_CAND__L_FINALS.f0.f0 == 0) ==> seen_f) \
  __CPROVER_loop_invariant((fin_wf && seen_f && r_wf) ==> ssf_w) \
  __CPROVER_loop_invariant(ssf_w ==> (fin_wf && r_wf))
#define LOOPASG_CAND__L_KEPT , G_KEPT
#define LOOP_CAND__L_KEPT \
  __CPROVER_loop_invariant(END_CAND__L_KEPT.f0 == 0 && g_local == (void*)&v_result_slot) \
  __CPROVER_loop_invariant((rt_w && BEGIN_CAND__L_KEPT.f0 == 0) ==> seen_k) \
  __CPROVER_loop_invariant((rt_w && seen_k) ==> iat_w) \
  __CPROVER_loop_invariant(iat_w ==> rt_w)
