#define CANARY(n) __CPROVER_assert(0, "canary: " n " reaches the end (must FAIL)")
#define TOK ((void*)(uintptr_t)8)
#define MAYBE (nondet_bool() ? TOK : (void*)0)
_Bool nondet_bool(void); uint64_t nondet_u64(void);
void* VERIF_new(uint64_t n) { __CPROVER_assert(n == sizeof(TI), "operator new is asked for a TransitionInfo"); return (has_w && cur_q && cur_a && cur_t) ? (void*)&cell_tiw : (void*)&cell_tio; } void VERIF_delete(void* p) { }
void SM_CTOR(void* m) { sm_w = 0; } void SM_DTOR(void* m) { } void USET_CTOR(void* s) { r_wc = 0; r_wf = 0; r_wx = 0; } void USET_DTOR(void* s) { }
void VECTIP_CTOR(void* v) { } void VECTIP_DTOR(void* v) { } void LIST_CTOR(void* v) { pend_wc = 0; } void LIST_DTOR(void* v) { } void TIP_DTOR(void* p) { } void PAIR_SV_DTOR(void* p) { }
/* ---- phase 1: the rules of *this (witness traversal of owners / symbols / tuples) ---- */
void* CMAP_BEGIN(void* m) { __CPROVER_assert(m == m_this, "traversal of the cluster map of *this"); seen_q = 0; return has_w ? TOK : MAYBE; }
void* CMAP_END(void* m) { return (void*)0; }
void* CMAP_DEREF(void* it_) { CMI* it = (CMI*)it_; __CPROVER_assert(it->f0.f0 != 0, "no dereference of an end iterator"); cur_q = has_w && nondet_bool() && !seen_q; if (cur_q) seen_q = 1;
  uint64_t k = nondet_u64(); if (cur_q) k = wq; else __CPROVER_assume(!has_w || k != wq); g_cq = k; cell_cm.f0 = k; SP_PTR(&cell_cm.f1) = TOK; return &cell_cm; }
void* CMAP_INC(void* it_) { CMI* it = (CMI*)it_; it->f0.f0 = MAYBE; __CPROVER_assume(it->f0.f0 != 0 || !has_w || seen_q); return it; }
void* CLU_BEGIN(void* c) { seen_a = 0; return (has_w && cur_q) ? TOK : MAYBE; }
void* CLU_END(void* c) { return (void*)0; }
void* CLU_DEREF(void* it_) { CLI* it = (CLI*)it_; __CPROVER_assert(it->f0.f0 != 0, "no dereference of an end iterator"); cur_a = has_w && cur_q && nondet_bool() && !seen_a; if (cur_a) seen_a = 1;
  uint64_t k = nondet_u64(); if (cur_a) k = wa; else __CPROVER_assume(!(has_w && cur_q) || k != wa); cell_clu.f0 = k; SP_PTR(&cell_clu.f1) = TOK; return &cell_clu; }
void* CLU_INC(void* it_) { CLI* it = (CLI*)it_; it->f0.f0 = MAYBE; __CPROVER_assume(it->f0.f0 != 0 || !(has_w && cur_q) || seen_a); return it; }
void* TSET_BEGIN(void* t) { seen_t = 0; return (has_w && cur_q && cur_a) ? TOK : MAYBE; }
void* TSET_END(void* t) { return (void*)0; }
void* RBI_DEREF(void* it_) { RBI* it = (RBI*)it_; __CPROVER_assert(it->f0 != 0, "no dereference of an end iterator"); cur_t = has_w && cur_q && cur_a && nondet_bool() && !seen_t; if (cur_t) seen_t = 1;
  SP_PTR(&cell_tup) = cur_t ? TOKT_W : TOKT_O; return &cell_tup; }
void* RBI_INC(void* it_) { RBI* it = (RBI*)it_; it->f0 = MAYBE; __CPROVER_assume(it->f0 != 0 || !(has_w && cur_q && cur_a) || seen_t); return it; }
void TI_CTOR(void* ti, void* tup, uint64_t* sym, uint64_t* st) { __CPROVER_assert(*sym == cell_clu.f0 && *st == g_cq && tup == (void*)&cell_tup, "C03: a TransitionInfo is built from the tuple, symbol and parent of the rule under the cursor");
  if (ti == (void*)&cell_tiw) __CPROVER_assert(SP_PTR((SPV*)tup) == TOKT_W && *sym == wa && *st == wq, "the witness rule's info holds the witness rule");
  else { cell_tio.f1 = *sym; cell_tio.f2 = *st; } }
uint64_t VEC_SIZE(void* v) { return nondet_u64(); }     /* size() of a tuple, should the code ask for it */
void TIP_RAW(void* sp, void* raw) { SP_PTR((TIP*)sp) = raw; }
_Bool VEC_EMPTY(void* v) { if (v == TOKT_W) { if (w_leaf) __CPROVER_assume(T_PROD[wq] != 0); return w_leaf; }
  if (v == TOKT_O) { _Bool e = nondet_bool(); if (e) __CPROVER_assume(T_PROD[g_cq] != 0); /* a rule without children makes its parent productive (definition) */ return e; }
  __CPROVER_assert(0, "empty() of a tuple"); return 0; }
_Bool LIST_EMPTY(void* l) { _Bool e = nondet_bool(); __CPROVER_assume(!e || !pend_wc); return e; }
void VECTIP_PUSH(void* v, void* tip) { void* info = (void*)SP_PTR((TIP*)tip);
  if (v == (void*)&cell_sm.f1) { __CPROVER_assert(info == (void*)&cell_tiw || info == (void*)&cell_tio, "an info object"); g_rem++; if (info == (void*)&cell_tiw && g_sm_key == wc) sm_w = 1; }
  else { if (info == (void*)&cell_tiw) rt_w = 1; if (((TI*)info)->f2 == wx) just_wx = 1; } }
USET_INSRET USET_INSERT(void* s, uint64_t* x) { __CPROVER_assert(T_PROD[*x] != 0, "C03 soundness: only productive states enter the computed set"); USET_INSRET r; r.f1 = nondet_bool();
  if (*x == wc) { r.f1 = !r_wc; r_wc = 1; } if (*x == wf) { r.f1 = !r_wf; r_wf = 1; } if (*x == wx) { r.f1 = !r_wx; r_wx = 1; } g_new = r.f1; return r; }
void LIST_PUSH(void* v, uint64_t* x) { __CPROVER_assert(T_PROD[*x] != 0, "C03 soundness: only productive states are put on the work list"); if (*x == wc) { __CPROVER_assert(r_wc, "a state on the work list is in the computed set"); pend_wc = 1; } }
/* the distinct children of the info just built: for the witness rule, wc is handed out exactly once */
void* SETUL_BEGIN(void* s) { __CPROVER_assert(s == (void*)&cell_tiw.f3 || s == (void*)&cell_tio.f3, "traversal of the children set of the info just built"); seen_c = 0; return (s == (void*)&cell_tiw.f3) ? TOK : MAYBE; }
void* SETUL_END(void* s) { return (void*)0; }
uint64_t* SETI_DEREF(void* it_) { SETI* it = (SETI*)it_; __CPROVER_assert(it->f0 != 0, "no dereference of an end iterator"); _Bool wit = has_w && cur_q && cur_a && cur_t; cur_c = wit && nondet_bool() && !seen_c; if (cur_c) seen_c = 1;
  cell_child = nondet_u64(); if (cur_c) cell_child = wc; else __CPROVER_assume(!wit || cell_child != wc); return &cell_child; }
void* SETI_INC(void* it_) { SETI* it = (SETI*)it_; it->f0 = MAYBE; __CPROVER_assume(it->f0 != 0 || !(has_w && cur_q && cur_a && cur_t) || seen_c); return it; }
void MKPAIR_SV(void* ret, uint64_t* k, void* vec) { ((PAIR_SV*)ret)->f0 = *k; }
SM_INSRET SM_INSERT(void* m, void* kv) { g_sm_key = ((PAIR_SV*)kv)->f0; SM_INSRET r; r.f0 = TOK; r.f1 = nondet_bool(); return r; }
void* SM_ARROW(void* it) { __CPROVER_assert(((void**)it)[0] != 0, "-> on an entry found / inserted"); return &cell_sm; }
/* ---- phase 2: the work list ---- */
uint64_t* LIST_FRONT(void* v) { uint64_t q = nondet_u64(); __CPROVER_assume(q != wc || pend_wc); __CPROVER_assume(T_PROD[q] != 0); /* store invariant of the work list: asserted at every push */ cell_back = q; g_back = q; return &cell_back; }
void* SM_FIND(void* m, uint64_t* k) { __CPROVER_assert(*k == g_back, "look-up of the state in hand"); _Bool hit = (*k == wc && sm_w) ? 1 : nondet_bool(); cell_sm.f0 = *k; g_sm_key = *k; return hit ? TOK : (void*)0; }
void* SM_END(void* m) { return (void*)0; }
uint64_t SM_COUNT(void* m, uint64_t* k) { return nondet_bool(); }     /* count() of the registration map, should the code ask for it */
void LIST_POP(void* v) { g_q = g_back; q_is_wc = (g_back == wc); if (q_is_wc) pend_wc = 0; }
void* VECTIP_BEGIN(void* v) { if (v == (void*)&cell_sm.f1) { seen_i = 0; return (q_is_wc && sm_w) ? TOK : MAYBE; } seen_k = 0; return rt_w ? TOK : MAYBE; }
void* VECTIP_END(void* v) { return (void*)0; }
void* TII_DEREF(void* it_) { TII* it = (TII*)it_; __CPROVER_assert(it->f0 != 0, "no dereference of an end iterator");
  if (g_ret_kind == 0 && g_local == 0) { /* infos registered under the state in hand */ _Bool w = q_is_wc && sm_w && nondet_bool() && !seen_i; if (w) seen_i = 1; SP_PTR(&cell_tip) = w ? (void*)&cell_tiw : (void*)&cell_tio;
    if (!w) { cell_tio.f1 = nondet_u64(); cell_tio.f2 = nondet_u64(); } return &cell_tip; }
  /* infos kept */ _Bool w = rt_w && nondet_bool() && !seen_k; if (w) seen_k = 1; SP_PTR(&cell_tip) = w ? (void*)&cell_tiw : (void*)&cell_tio; g_cur_kept = (void*)SP_PTR(&cell_tip);
  if (!w) { cell_tio.f1 = nondet_u64(); cell_tio.f2 = nondet_u64(); } return &cell_tip; }
void* TII_INC(void* it_) { TII* it = (TII*)it_; it->f0 = MAYBE; if (g_local == 0) __CPROVER_assume(it->f0 != 0 || !(q_is_wc && sm_w) || seen_i); else __CPROVER_assume(it->f0 != 0 || !rt_w || seen_k); return it; }
/* reachedBy(state): trusted contract of the three-line body (erase the state from the set of missing children; report whether none is missing):
   true only after every distinct child was passed in, each of them a productive state (asserted) -- then the parent is productive by definition */
_Bool REACHED_BY(void* ti, uint64_t* st) { __CPROVER_assert(*st == g_q && T_PROD[*st] != 0, "reachedBy is told the productive state in hand");
  if (ti == (void*)&cell_tiw && *st == wc) w_erased = 1; _Bool r = nondet_bool(); if (ti == (void*)&cell_tiw) __CPROVER_assume(!r || w_erased);
  if (r) { g_rem--; __CPROVER_assume(T_PROD[((TI*)ti)->f2] != 0); } return r; }
/* ---- the result ---- */
void AUT_CTOR(void* a, void* cache, void* alph) { g_local = a; } void AUT_DTOR(void* a) { }
void* CUSET_BEGIN(void* s) { __CPROVER_assert(s == (void*)&g_this->f1, "traversal of the final states of *this"); seen_f = 0; return fin_wf ? TOK : MAYBE; }
void* CUSET_END(void* s) { return (void*)0; }
uint64_t* CUSI_DEREF(void* it_) { CUSI* it = (CUSI*)it_; __CPROVER_assert(it->f0.f0 != 0, "no dereference of an end iterator"); cur_f = fin_wf && nondet_bool() && !seen_f; if (cur_f) seen_f = 1;
  cell_f = nondet_u64(); if (cur_f) cell_f = wf; else __CPROVER_assume(!fin_wf || cell_f != wf); g_cur_f = cell_f; g_find_hit = 0; return &cell_f; }
void* CUSI_INC(void* it_) { CUSI* it = (CUSI*)it_; it->f0.f0 = MAYBE; __CPROVER_assume(it->f0.f0 != 0 || !fin_wf || seen_f); return it; }
uint64_t USET_COUNT(void* s, uint64_t* x) { __CPROVER_assert(*x == g_cur_f, "membership of the final state under the cursor"); g_find_hit = (*x == wc) ? r_wc : ((*x == wf) ? r_wf : ((*x == wx) ? r_wx : nondet_bool())); return g_find_hit ? 1 : 0; }
uint64_t __CPROVER_uninterpreted_FIN(uint64_t s);
_Bool ISF(void* a, uint64_t* x) { __CPROVER_assert(a == (void*)g_this && g_new, "finality is asked of *this for the state just reached"); _Bool r = __CPROVER_uninterpreted_FIN(*x) != 0; if (r) g_found_f = 1; return r; }
void SSF(void* a, uint64_t* x) { __CPROVER_assert(a == g_local && *x == g_cur_f && g_find_hit, "C03: only a final state of *this that is in the productive set is made final"); if (cur_f) ssf_w = 1; }
void* SPM_ASSIGN(void* d, void* s) { __CPROVER_assert(d == (void*)&((AUT*)g_local)->f2 && s == (void*)&g_this->f2, "the shortcut shares the whole cluster map of *this"); g_shortcut = 1; return d; }
void IAT(void* a, void* ch, uint64_t* sym, uint64_t* st) { TI* i = (TI*)g_cur_kept; __CPROVER_assert(a == g_local && ch == (void*)&i->f0 && sym == &i->f1 && st == &i->f2, "C03: the rule added to the result is the one recorded in the kept info under the cursor");
  if (i == &cell_tiw) iat_w = 1; }
void RUS(void* ret, void* a, void* tm) { __CPROVER_assert(ret == (void*)g_ret && a == g_local && tm == (void*)0, "the result is pruned by RemoveUnreachableStates"); g_ret_kind = 1; }
void h_CAND(void) { g_this = malloc(sizeof *g_this); g_ret = malloc(sizeof *g_ret); m_this = malloc(64); __CPROVER_assume(g_this && g_ret && m_this); SP_PTR(&g_this->f2) = m_this;
  SP_PTR(&cell_tiw.f0) = TOKT_W; cell_tiw.f1 = wa; cell_tiw.f2 = wq; g_ret_kind = 0; g_rem = 0; rt_w = 0; sm_w = 0; w_erased = 0; just_wx = 0; g_found_f = 0; ssf_w = 0; iat_w = 0; g_shortcut = 0; g_local = 0;
  CAND(g_ret, g_this); CANARY("h_CAND"); }
