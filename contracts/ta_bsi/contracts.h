/* Unit ta_bsi (DESIGN.md 5-C05, 11): ExplicitTreeAutCore::BuildStateIndex(index) -- Reduce takes the number of states the simulation runs over from
   how often the index functor had to hand out a new number; a state that is never passed to it gets no number (and no entry in the collapse map).
   For an ARBITRARY tracked state ws that occurs in *this as a final state (fin_ws), as the parent of a rule (own_ws) or as the component wk of a
   witness rule's tuple (ch_ws):   index(ws) has been called when the loops finish.   The automaton is only traversed (frame). */
uint64_t ws, wq, wa, wtid, wk; _Bool fin_ws, own_ws, has_w, ch_ws, called_ws;
_Bool seen_f, cur_f, seen_q, cur_q, seen_a, cur_a, seen_t, cur_t; uint64_t g_pos, g_len, g_cur_tid, cell_f, cell_child;
E_CMAP cell_cm; E_CLU cell_clu; SPV cell_tup; AUT* g_this; void* m_src;
#define G_L4 g_pos, cell_child, called_ws
#define G_L3 G_L4, seen_t, cur_t, g_cur_tid, g_len, cell_tup
#define G_L2 G_L3, seen_a, cur_a, cell_clu
#define G_L1 G_L2, seen_q, cur_q, cell_cm
#define G_FIN seen_f, cur_f, cell_f, called_ws
#define CHW (has_w && ch_ws)
#define CONTRACT_BSI \
  __CPROVER_requires(v_this == g_this && !called_ws) \
  __CPROVER_assigns(G_FIN, G_L1) \
  __CPROVER_ensures((fin_ws || own_ws || CHW) ==> called_ws)
#define LOOPASG_BSI__L_FINALS , G_FIN
#define LOOP_BSI__L_FINALS \
  __CPROVER_loop_invariant(END_BSI__L_FINALS.f0.f0 == 0) \
  __CPROVER_loop_invariant((fin_ws && BEGIN_BSI__L_FINALS.f0.f0 == 0) ==> seen_f) \
  __CPROVER_loop_invariant((fin_ws && seen_f) ==> called_ws)
#define KEEP __CPROVER_loop_invariant(fin_ws ==> called_ws)
#define LOOPASG_BSI__L_OWNERS , G_L1
#define LOOP_BSI__L_OWNERS KEEP \
  __CPROVER_loop_invariant(END_BSI__L_OWNERS.f0.f0 == 0) \
  __CPROVER_loop_invariant(((own_ws || CHW) && BEGIN_BSI__L_OWNERS.f0.f0 == 0) ==> seen_q) \
  __CPROVER_loop_invariant(((own_ws || CHW) && seen_q) ==> called_ws)
#define LOOPASG_BSI__L_SYMS , G_L2
#define LOOP_BSI__L_SYMS KEEP \
  __CPROVER_loop_invariant(END_BSI__L_SYMS.f0.f0 == 0 && ((own_ws && cur_q) ==> called_ws)) \
  __CPROVER_loop_invariant((CHW && cur_q && BEGIN_BSI__L_SYMS.f0.f0 == 0) ==> seen_a) \
  __CPROVER_loop_invariant((CHW && cur_q && seen_a) ==> called_ws) \
  __CPROVER_loop_invariant(((own_ws || CHW) && !cur_q && seen_q) ==> called_ws)
#define LOOPASG_BSI__L_TUPLES , G_L3
#define LOOP_BSI__L_TUPLES KEEP \
  __CPROVER_loop_invariant(END_BSI__L_TUPLES.f0 == 0 && ((own_ws && cur_q) ==> called_ws)) \
  __CPROVER_loop_invariant((CHW && cur_q && cur_a && BEGIN_BSI__L_TUPLES.f0 == 0) ==> seen_t) \
  __CPROVER_loop_invariant((CHW && cur_q && cur_a && seen_t) ==> called_ws) \
  __CPROVER_loop_invariant((CHW && cur_q && !cur_a && seen_a) ==> called_ws) \
  __CPROVER_loop_invariant(((own_ws || CHW) && !cur_q && seen_q) ==> called_ws)
#define LOOPASG_BSI__L_CHILDREN , G_L4
#define LOOP_BSI__L_CHILDREN KEEP \
  __CPROVER_loop_invariant(END_BSI__L_CHILDREN.f0 == 0 && g_pos <= g_len && ((own_ws && cur_q) ==> called_ws)) \
  __CPROVER_loop_invariant((BEGIN_BSI__L_CHILDREN.f0 == 0) == (g_pos == g_len)) \
  __CPROVER_loop_invariant((CHW && cur_q && cur_a && cur_t && wk < g_pos) ==> called_ws) \
  __CPROVER_loop_invariant((CHW && cur_q && cur_a && !cur_t && seen_t) ==> called_ws) \
  __CPROVER_loop_invariant((CHW && cur_q && !cur_a && seen_a) ==> called_ws) \
  __CPROVER_loop_invariant(((own_ws || CHW) && !cur_q && seen_q) ==> called_ws)
