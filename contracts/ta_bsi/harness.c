#ifndef NO_CANARY
#define CANARY(n) __CPROVER_assert(0, "canary: " n " reaches the end (must FAIL)")
#else
#define CANARY(n)
#endif
#define TOK ((void*)(uintptr_t)8)
#define MAYBE (nondet_bool() ? TOK : (void*)0)
#define SP_PTR(sp) ((sp)->f0.f0)
_Bool nondet_bool(void); uint64_t nondet_u64(void);
uint64_t __CPROVER_uninterpreted_LEN(uint64_t tid); uint64_t __CPROVER_uninterpreted_CHILD(uint64_t tid, uint64_t k);
uint64_t IDX_CALL(void* ix, uint64_t* s) { if (*s == ws) called_ws = 1; return nondet_u64(); }
void* FS_BEGIN(void* s) { __CPROVER_assert(s == (void*)&g_this->f1, "traversal of the final states of *this"); seen_f = 0; return fin_ws ? TOK : MAYBE; }
void* FS_END(void* s) { return (void*)0; }
uint64_t* FSI_DEREF(void* it_) { FSI* it = (FSI*)it_; __CPROVER_assert(it->f0.f0 != 0, "no dereference of an end iterator"); cur_f = fin_ws && nondet_bool() && !seen_f; if (cur_f) seen_f = 1;
  cell_f = nondet_u64(); if (cur_f) cell_f = ws; else __CPROVER_assume(!fin_ws || cell_f != ws); return &cell_f; }
void* FSI_INC(void* it_) { FSI* it = (FSI*)it_; it->f0.f0 = MAYBE; __CPROVER_assume(it->f0.f0 != 0 || !fin_ws || seen_f); return it; }
/* the owner traversal hands out the tracked owner (ws itself if it owns rules, else the parent wq of the witness rule) exactly once */
#define WOWN (own_ws ? ws : wq)
#define HASQ (own_ws || CHW)
void* CMAP_BEGIN(void* m) { __CPROVER_assert(m == m_src, "traversal of the cluster map of *this"); seen_q = 0; return HASQ ? TOK : MAYBE; }
void* CMAP_END(void* m) { return (void*)0; }
void* CMAP_DEREF(void* it_) { CMI* it = (CMI*)it_; __CPROVER_assert(it->f0.f0 != 0, "no dereference of an end iterator"); cur_q = HASQ && nondet_bool() && !seen_q; if (cur_q) seen_q = 1;
  uint64_t k = nondet_u64(); if (cur_q) k = WOWN; else __CPROVER_assume(!HASQ || k != WOWN); cell_cm.f0 = k; SP_PTR(&cell_cm.f1) = TOK; return &cell_cm; }
void* CMAP_INC(void* it_) { CMI* it = (CMI*)it_; it->f0.f0 = MAYBE; __CPROVER_assume(it->f0.f0 != 0 || !HASQ || seen_q); return it; }
void* CLU_BEGIN(void* c) { seen_a = 0; return (CHW && cur_q) ? TOK : MAYBE; }
void* CLU_END(void* c) { return (void*)0; }
void* CLU_DEREF(void* it_) { CLI* it = (CLI*)it_; __CPROVER_assert(it->f0.f0 != 0, "no dereference of an end iterator"); cur_a = CHW && cur_q && nondet_bool() && !seen_a; if (cur_a) seen_a = 1;
  uint64_t k = nondet_u64(); if (cur_a) k = wa; else __CPROVER_assume(!(CHW && cur_q) || k != wa); cell_clu.f0 = k; SP_PTR(&cell_clu.f1) = TOK; return &cell_clu; }
void* CLU_INC(void* it_) { CLI* it = (CLI*)it_; it->f0.f0 = MAYBE; __CPROVER_assume(it->f0.f0 != 0 || !(CHW && cur_q) || seen_a); return it; }
void* TSET_BEGIN(void* t) { seen_t = 0; return (CHW && cur_q && cur_a) ? TOK : MAYBE; }
void* TSET_END(void* t) { return (void*)0; }
void* RBI_DEREF(void* it_) { RBI* it = (RBI*)it_; __CPROVER_assert(it->f0 != 0, "no dereference of an end iterator"); cur_t = CHW && cur_q && cur_a && nondet_bool() && !seen_t; if (cur_t) seen_t = 1;
  uint64_t k = nondet_u64(); if (cur_t) k = wtid; else __CPROVER_assume(!(CHW && cur_q && cur_a) || k != wtid); g_cur_tid = k; g_len = __CPROVER_uninterpreted_LEN(k); SP_PTR(&cell_tup) = TOK; return &cell_tup; }
void* RBI_INC(void* it_) { RBI* it = (RBI*)it_; it->f0 = MAYBE; __CPROVER_assume(it->f0 != 0 || !(CHW && cur_q && cur_a) || seen_t); return it; }
uint64_t* TUP_BEGIN(void* v) { g_pos = 0; return (uint64_t*)(g_len > 0 ? TOK : (void*)0); }
uint64_t* TUP_END(void* v) { return (uint64_t*)0; }
uint64_t* NIT_DEREF(void* it_) { NIT* it = (NIT*)it_; __CPROVER_assert(it->f0 != 0, "no dereference of an end iterator"); cell_child = __CPROVER_uninterpreted_CHILD(g_cur_tid, g_pos); return &cell_child; }
void* NIT_INC(void* it_) { NIT* it = (NIT*)it_; g_pos++; it->f0 = (uint64_t*)(g_pos < g_len ? TOK : (void*)0); return it; }
void h_BSI(void) { g_this = malloc(sizeof *g_this); m_src = malloc(64); __CPROVER_assume(g_this && m_src); SP_PTR(&g_this->f2) = m_src; called_ws = 0;
  /* ws is the component wk of the witness rule's tuple, and that rule's parent wq owns rules */
  __CPROVER_assume(!ch_ws || (wk < __CPROVER_uninterpreted_LEN(wtid) && __CPROVER_uninterpreted_CHILD(wtid, wk) == ws)); __CPROVER_assume((fin_ws ? 1 : 0) + (own_ws ? 1 : 0) + (ch_ws ? 1 : 0) <= 1);   /* one way of occurring at a time: ws and the way are arbitrary, so all three clauses are covered */
  __CPROVER_assume(!ch_ws || has_w);
  void* ix = malloc(1); BSI(g_this, ix); CANARY("h_BSI"); }
