/* Unit fa_candidate (DESIGN.md 5-C10, 11): ExplicitFiniteAutCore::GetCandidateTree -- breadth-first search from the start states for the
   first final state; the result is (the useful part of) the start states, the clusters of the states processed and that one final state.
   Tracked: the WITNESS EDGE wp --wa--> wc of A (exists iff has_e), the WITNESS START STATE ws (start iff st_ws), an ARBITRARY state wx.
   r_x = "x is in reachableStates", pend_wp = "wp is on the work list", fin_wx = "wx is final in A".
   (G1) SOUND       every state entering reachableStates / the work list is reachable from a start state (T_REACH, closure unfolded at the edge visited)
   (G2) CLOSED      on the "no final state found" exit: start states are in the set, and wp in the set ==> wc in the set   (L-lfp: the set is all reachable states)
   (G3) NOTHING MISSED  on that exit no state of the set is final in A (r_wx ==> !fin_wx)    ==> the result may be empty only if L(A) is
   (G4) PROVENANCE  the result's start states are A's with their own start symbols; a cluster put into the result is the cluster A gives to the
                    state being processed; only a final state of A that was just reached is made final; a state newly reached over an edge
                    has its predecessor's cluster in the result before the search goes on or returns (so the result contains a path to it). */
#include "common/sp_ghost.h"
extern uint8_t T_REACH[__CPROVER_constant_infinity_uint];
uint64_t wp, wa, wc, ws, wx; _Bool has_e, st_ws, fin_wx;
_Bool r_wp, r_wc, r_ws, r_wx, pend_wp, q_is_wp;
_Bool seen_s, cur_s, seen_a, cur_a, seen_c, cur_c, g_owed, g_found, g_work;
uint64_t g_q, g_front, g_find_key, g_cur_start, g_cur_succ, g_gss_state, cell_s, cell_front, cell_succ; uint8_t g_ret_kind;
E_CMAP cell_cm; E_CLU cell_clu; AUT *g_this, *g_ret; void *g_res, *m_this, *m_res, *m_start;
#define CONS ((wp != wc || r_wp == r_wc) && (wp != ws || r_wp == r_ws) && (wp != wx || r_wp == r_wx) && (wc != ws || r_wc == r_ws) && (wc != wx || r_wc == r_wx) && (ws != wx || r_ws == r_wx))
#define G_SUCC  r_wp, r_wc, r_ws, r_wx, pend_wp, seen_c, cur_c, cell_succ, g_cur_succ, g_owed, cell_cm
#define G_SYMS  G_SUCC, seen_a, cur_a, cell_clu, g_found, g_ret_kind   /* the early-exit code sits inside the symbol loop */
#define G_WORK  G_SYMS, q_is_wp, g_q, g_front, g_find_key, cell_front, cell_cm, g_work
#define G_START r_wp, r_wc, r_ws, r_wx, pend_wp, seen_s, cur_s, cell_s, g_cur_start, g_gss_state, g_found, g_ret_kind   /* a final start state ends the search inside the loop */
#define CONTRACT_CAND \
  __CPROVER_requires(v_this == g_this && v_agg_result == g_ret && g_ret_kind == 0 && !g_found && !g_owed && !g_work) \
  __CPROVER_assigns(G_WORK, G_START, g_res) \
  __CPROVER_ensures(g_ret_kind == 1 || g_ret_kind == 2) \
  __CPROVER_ensures((g_ret_kind == 1) == g_found) \
  __CPROVER_ensures(g_ret_kind == 2 ==> ((st_ws ==> r_ws) && ((r_wp && has_e) ==> r_wc))) \
  __CPROVER_ensures(g_ret_kind == 2 ==> (r_wx ==> !fin_wx))
#define COMMON  __CPROVER_loop_invariant(CONS && g_ret_kind == 0 && !g_found && !g_owed && (r_wx ==> !fin_wx))
#define LOOPASG_CAND__L_START , G_START
#define LOOP_CAND__L_START COMMON \
  __CPROVER_loop_invariant(END_CAND__L_START.f0.f0 == 0 && (r_wp ==> pend_wp) && !g_work) \
  __CPROVER_loop_invariant((st_ws && BEGIN_CAND__L_START.f0.f0 == 0) ==> seen_s) \
  __CPROVER_loop_invariant((st_ws && seen_s) ==> r_ws)
#define LOOPASG_CAND__L_WORK , G_WORK
#define LOOP_CAND__L_WORK COMMON \
  __CPROVER_loop_invariant((st_ws ==> r_ws) && ((r_wp && !pend_wp && has_e) ==> r_wc))
#define CARRY __CPROVER_loop_invariant((st_ws ==> r_ws) && ((!q_is_wp && r_wp && !pend_wp && has_e) ==> r_wc) && T_REACH[g_q] != 0 && g_work)
#define LOOPASG_CAND__L_SYMS , G_SYMS
#define LOOP_CAND__L_SYMS COMMON CARRY \
  __CPROVER_loop_invariant(END_CAND__L_SYMS.f0.f0 == 0) \
  __CPROVER_loop_invariant((q_is_wp && has_e && BEGIN_CAND__L_SYMS.f0.f0 == 0) ==> seen_a) \
  __CPROVER_loop_invariant((q_is_wp && has_e && seen_a) ==> r_wc)
#define LOOPASG_CAND__L_SUCC , G_SUCC
#define LOOP_CAND__L_SUCC COMMON CARRY \
  __CPROVER_loop_invariant(END_CAND__L_SUCC.f0.f0 == 0) \
  __CPROVER_loop_invariant((q_is_wp && has_e && cur_a && BEGIN_CAND__L_SUCC.f0.f0 == 0) ==> seen_c) \
  __CPROVER_loop_invariant((q_is_wp && has_e && cur_a && seen_c) ==> r_wc) \
  __CPROVER_loop_invariant((q_is_wp && has_e && !cur_a && seen_a) ==> r_wc)
