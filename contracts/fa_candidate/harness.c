#define CANARY(n) __CPROVER_assert(0, "canary: " n " reaches the end (must FAIL)")
#define TOK ((void*)(uintptr_t)8)
#define MAYBE (nondet_bool() ? TOK : (void*)0)
#define TOKCL ((void*)(uintptr_t)16)     /* the cluster A gives to the state looked up */
#define TOKSY ((void*)(uintptr_t)24)     /* the start-symbol set returned by GetStartSymbols */
_Bool nondet_bool(void); uint64_t nondet_u64(void);
uint64_t __CPROVER_uninterpreted_FIN(uint64_t s);     /* s is final in A */
#define FIN(s) (__CPROVER_uninterpreted_FIN(s) != 0)
void USET_CTOR(void* s) { r_wp = 0; r_wc = 0; r_ws = 0; r_wx = 0; } void USET_DTOR(void* s) { }
void LIST_CTOR(void* l) { pend_wp = 0; } void LIST_DTOR(void* l) { }
void AUT_CTOR(void* a, void* alph) { g_res = a; SP_PTR(&((AUT*)a)->f3) = m_res; } void AUT_DTOR(void* a) { }
/* ---- start states ---- */
void* GST(void* a) { __CPROVER_assert(a == (void*)g_this, "start states of A"); return m_start; }
void* CUSET_BEGIN(void* s) { __CPROVER_assert(s == m_start, "traversal of A's start states"); seen_s = 0; return st_ws ? TOK : MAYBE; }
void* CUSET_END(void* s) { return (void*)0; }
uint64_t* CUSI_DEREF(void* it_) { CUSI* it = (CUSI*)it_; __CPROVER_assert(it->f0.f0 != 0, "no dereference of an end iterator"); cur_s = st_ws && nondet_bool() && !seen_s; if (cur_s) seen_s = 1;
  cell_s = nondet_u64(); if (cur_s) cell_s = ws; else __CPROVER_assume(!st_ws || cell_s != ws); __CPROVER_assume(T_REACH[cell_s] != 0);   /* start states are reachable by definition */
  g_cur_start = cell_s; return &cell_s; }
void* CUSI_INC(void* it_) { CUSI* it = (CUSI*)it_; it->f0.f0 = MAYBE; __CPROVER_assume(it->f0.f0 != 0 || !st_ws || seen_s); return it; }
void* GSS(void* a, uint64_t s) { __CPROVER_assert(a == (void*)g_this, "start symbols are taken from A"); g_gss_state = s; return TOKSY; }
void SESS(void* a, uint64_t* s, void* syms) { __CPROVER_assert(a == g_res && *s == g_cur_start && syms == TOKSY && g_gss_state == *s, "C10: a start state of A becomes a start state of the result with its own start symbols"); }
/* ---- the computed set and the work list ---- */
USET_INSRET USET_INSERT(void* s, uint64_t* x) { __CPROVER_assert(T_REACH[*x] != 0, "C10 soundness: only reachable states enter the computed set"); USET_INSRET r; r.f1 = nondet_bool();
  if (*x == wp) { r.f1 = !r_wp; r_wp = 1; } if (*x == wc) { r.f1 = !r_wc; r_wc = 1; } if (*x == ws) { r.f1 = !r_ws; r_ws = 1; } if (*x == wx) { r.f1 = !r_wx; r_wx = 1; }
  if (g_work && r.f1) g_owed = 1; return r; }
void LIST_PUSH(void* l, uint64_t* x) { __CPROVER_assert(T_REACH[*x] != 0, "C10 soundness: only reachable states are put on the work list"); if (*x == wp) pend_wp = 1; }
_Bool LIST_EMPTY(void* l) { _Bool e = nondet_bool(); __CPROVER_assume(!e || !pend_wp); return e; }
uint64_t* LIST_FRONT(void* l) { uint64_t q = nondet_u64(); __CPROVER_assume(q != wp || pend_wp); __CPROVER_assume(T_REACH[q] != 0); /* store invariant of the work list: asserted at every push */ cell_front = q; g_front = q; g_work = 1; return &cell_front; }
void LIST_POP(void* l) { g_q = g_front; q_is_wp = (g_front == wp); if (q_is_wp) pend_wp = 0; }
/* ---- the cluster of the state in hand and its edges: witness traversal ---- */
void* CMAP_FIND(void* m, uint64_t* k) { __CPROVER_assert(m == m_this && *k == g_front, "look-up of the state in hand in A's cluster map"); g_find_key = *k; _Bool hit = (*k == wp && has_e) ? 1 : nondet_bool(); return hit ? TOK : (void*)0; }
void* CMAP_END(void* m) { return (void*)0; }
void* CMAP_ARROW(void* it) { __CPROVER_assert(((void**)it)[0] != 0, "-> on the entry found"); cell_cm.f0 = g_find_key; SP_PTR(&cell_cm.f1) = TOKCL; return &cell_cm; }
void* CLU_BEGIN(void* c) { __CPROVER_assert(c == TOKCL, "traversal of the cluster found"); seen_a = 0; return (q_is_wp && has_e) ? TOK : MAYBE; }
void* CLU_END(void* c) { return (void*)0; }
void* CLU_DEREF(void* it_) { CLI* it = (CLI*)it_; __CPROVER_assert(it->f0.f0 != 0, "no dereference of an end iterator"); cur_a = q_is_wp && has_e && nondet_bool() && !seen_a; if (cur_a) seen_a = 1;
  cell_clu.f0 = nondet_u64(); if (cur_a) cell_clu.f0 = wa; else __CPROVER_assume(!(q_is_wp && has_e) || cell_clu.f0 != wa); return &cell_clu; }
void* CLU_INC(void* it_) { CLI* it = (CLI*)it_; it->f0.f0 = MAYBE; __CPROVER_assume(it->f0.f0 != 0 || !(q_is_wp && has_e) || seen_a); return it; }
void E_COPY(void* d, void* s) { *(E_CLU*)d = *(E_CLU*)s; } void E_DTOR(void* e) { }
void* USET_BEGIN(void* s) { seen_c = 0; return (q_is_wp && has_e && cur_a) ? TOK : MAYBE; }
void* USET_END(void* s) { return (void*)0; }
uint64_t* USI_DEREF(void* it_) { USI* it = (USI*)it_; __CPROVER_assert(it->f0.f0 != 0, "no dereference of an end iterator"); cur_c = q_is_wp && has_e && cur_a && nondet_bool() && !seen_c; if (cur_c) seen_c = 1;
  cell_succ = cur_c ? wc : nondet_u64(); __CPROVER_assume(T_REACH[g_q] == 0 || T_REACH[cell_succ] != 0);   /* definition of reachability, unfolded at the edge visited */
  g_cur_succ = cell_succ; return &cell_succ; }
void* USI_INC(void* it_) { USI* it = (USI*)it_; __CPROVER_assert(!g_owed, "C10: the cluster of the state in hand is in the result before the search goes on"); it->f0.f0 = MAYBE; __CPROVER_assume(it->f0.f0 != 0 || !(q_is_wp && has_e && cur_a) || seen_c); return it; }
/* ---- finality, and what goes into the result ---- */
_Bool ISF(void* a, uint64_t* x) { __CPROVER_assert(a == (void*)g_this, "finality is asked of A"); return FIN(*x); }
void SSF(void* a, uint64_t* x) { __CPROVER_assert(a == g_res && FIN(*x) && *x == (g_work ? g_cur_succ : g_cur_start), "C10: only a final state of A that was just reached is made final in the result"); g_found = 1; }
void MKPAIR_SC(void* ret, uint64_t* k, void* spc) { ((PAIR_SC*)ret)->f0 = *k; SP_PTR(&((PAIR_SC*)ret)->f1) = SP_PTR((__typeof__(&cell_cm.f1))spc); }
void PAIR_SC_DTOR(void* p) { }
RMAP_INSRET RMAP_INSERT(void* m, void* kv) { PAIR_SC* p = (PAIR_SC*)kv; __CPROVER_assert(m == m_res && p->f0 == g_q && SP_PTR(&p->f1) == TOKCL, "C10: the cluster put into the result is the one A gives to the state in hand");
  g_owed = 0; RMAP_INSRET r; r.f1 = nondet_bool(); return r; }
void RUSL(void* ret, void* a, void* tm) { __CPROVER_assert(ret == (void*)g_ret && a == g_res && tm == (void*)0 && !g_owed, "the result is the useful part of the automaton built"); g_ret_kind = g_found ? 1 : 2; }
void h_CAND(void) { g_this = malloc(sizeof *g_this); g_ret = malloc(sizeof *g_ret); m_this = malloc(64); m_res = malloc(64); m_start = malloc(64); __CPROVER_assume(g_this && g_ret && m_this && m_res && m_start);
  SP_PTR(&g_this->f3) = m_this; g_ret_kind = 0; g_found = 0; g_owed = 0; g_work = 0; fin_wx = FIN(wx);
  CAND(g_ret, g_this); CANARY("h_CAND"); }
