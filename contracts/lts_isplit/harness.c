#define CANARY(n) __CPROVER_assert(0, "canary: " n " reaches the end (must FAIL)")
_Bool nondet_bool(void); uint64_t nondet_u64(void);
#define TOK ((void*)(uintptr_t)8)
#define MAYBE (nondet_bool() ? TOK : (void*)0)
#define TOKW ((uint64_t*)(uintptr_t)16)
#define TOKO ((uint64_t*)(uintptr_t)24)
typedef struct { void* p; } ITP;
typedef struct { void* f0; uint64_t* f1; } SLIT;
uint64_t PART_SIZE(void* v) { __CPROVER_assert(v == (void*)&g_this->f5, "size of partition_"); return g_N; }
void ALB_CTOR(void* a) { } void ALB_DTOR(void* a) { } void VB_DTOR(void* v) { }
void VB_CTOR(void* v, uint64_t n, uint8_t* val, void* a) { __CPROVER_assert(n == g_N, "blockMask has one bit per block"); mask_w = (*val != 0); }
BITREF_RET VB_AT(void* v, uint64_t i) { __CPROVER_assert(i < g_N, "C20: blockMask is indexed within its size"); BITREF_RET r; r.f0 = (i == wbi) ? TOKW : TOKO; r.f1 = 1; return r; }
_Bool BITREF_BOOL(void* r) { return ((BITREF*)r)->f0 == TOKW ? mask_w : nondet_bool(); }
void* BITREF_ASSIGN(void* r, _Bool b) { if (((BITREF*)r)->f0 == TOKW) mask_w = b; return r; }
static uint64_t* deref(void) { cur_q = has_q && nondet_bool() && !seen_q; if (cur_q) seen_q = 1;
  cell_q = nondet_u64(); if (cur_q) cell_q = wq; else __CPROVER_assume(cell_q != wq);     /* a Remove set holds a state once */
  __CPROVER_assume(cell_q < g_S); return &cell_q; }
/* SmartSet */
void* SS_BEGIN(void* s) { __CPROVER_assert(s == g_remove, "traversal of the Remove set passed in"); seen_q = 0; cur_q = 0; return has_q ? TOK : MAYBE; }
void* SS_END(void* s) { return (void*)0; }
_Bool SSI_NE(void* a, void* b) { return ((ITP*)a)->p != ((ITP*)b)->p; }
uint64_t* SSI_DEREF(void* it) { __CPROVER_assert(((ITP*)it)->p != 0, "no dereference of an end iterator"); return deref(); }
void* SSI_INC(void* it) { ((ITP*)it)->p = MAYBE; __CPROVER_assume(((ITP*)it)->p != 0 || !has_q || seen_q); return it; }
/* SharedList */
SL_RET SL_BEGIN(void* s) { __CPROVER_assert(s == g_remove, "traversal of the Remove list passed in"); seen_q = 0; cur_q = 0; SL_RET r; r.f0 = 0; r.f1 = has_q ? (uint64_t*)TOK : (uint64_t*)MAYBE; return r; }
SL_RET SL_END(void* s) { SL_RET r; r.f0 = 0; r.f1 = 0; return r; }
_Bool SLI_NE(void* a, void* b) { return ((SLIT*)a)->f1 != ((SLIT*)b)->f1; }
uint64_t* SLI_DEREF(void* it) { __CPROVER_assert(((SLIT*)it)->f1 != 0, "no dereference of an end iterator"); return deref(); }
void* SLI_INC(void* it) { ((SLIT*)it)->f1 = (uint64_t*)MAYBE; __CPROVER_assume(((SLIT*)it)->f1 != 0 || !has_q || seen_q); return it; }
/* index_, blocks */
void* IDX_AT(void* v, uint64_t q) { __CPROVER_assert(v == (void*)&g_this->f7 && q < g_S, "C20: index_ is indexed below the number of states");
  if (q == wq) { g_last_block = bW; g_last_elem = cell_idx_w; return cell_idx_w; }
  bO->f0 = nondet_u64(); __CPROVER_assume(bO->f0 < g_N && bO->f0 != wbi);               /* engine invariant: block indices below partition_.size() and unique */
  cell_idx_o->f1 = nondet_bool() ? bW : bO; g_last_block = cell_idx_o->f1; g_last_elem = cell_idx_o; return cell_idx_o; }
void MOVETMP(void* b, void* e) { __CPROVER_assert(b == g_last_block && e == g_last_elem, "C16: the element of the state under the cursor is moved aside in the block that holds it");
  if (e == (void*)cell_idx_w) { __CPROVER_assert(b == (void*)bW, "in its own block"); moved_w++; } }
void BLK_PUSH(void* v, BLOCK** pb) { __CPROVER_assert(v == g_mb, "blocks are collected in the list passed in");
  __CPROVER_assert((void*)*pb == g_last_block, "C16: only the block of the state under the cursor is collected");
  if (*pb == bW) { __CPROVER_assert(cnt_w == 0, "C16: a block is collected at most once"); cnt_w++; } }
static void mk(void) { g_this = malloc(sizeof *g_this); g_mb = malloc(8); g_remove = malloc(8); bW = malloc(sizeof *bW); bO = malloc(sizeof *bO); cell_idx_w = malloc(sizeof *cell_idx_w); cell_idx_o = malloc(sizeof *cell_idx_o);
  __CPROVER_assume(g_this && g_mb && g_remove && bW && bO && cell_idx_w && cell_idx_o);
  bW->f0 = wbi; cell_idx_w->f1 = bW; __CPROVER_assume(wbi < g_N && wq < g_S); cnt_w = 0; moved_w = 0; }
void h_ISPLIT_SS(void) { mk(); ISPLIT_SS(g_this, g_mb, g_remove); CANARY("h_ISPLIT_SS"); }
void h_ISPLIT_SL(void) { mk(); ISPLIT_SL(g_this, g_mb, g_remove); CANARY("h_ISPLIT_SL"); }
