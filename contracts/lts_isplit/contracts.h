/* Unit lts_isplit (DESIGN.md 5-C16, 11): SimulationEngine::internalSplit(modifiedBlocks, remove), for a Remove set held in a SmartSet (initial
   refinement) and in a SharedList (processRemove).  Witness state wq (in `remove` iff has_q) whose block is bW = index_[wq].block_:
     has_q ==> bW->moveToTmp(&index_[wq]) was called exactly once  (every removed state is moved aside in ITS block)
     has_q ==> bW was appended to modifiedBlocks;   bW is appended at most once (block mask; a block's index identifies it)
   Call-site obligations: only the element / block of the state under the cursor is moved / appended; C20: blockMask below partition_.size(),
   index_ below lts.states(). */
ENG* g_this; void *g_mb, *g_remove; SLE *cell_idx_w, *cell_idx_o; BLOCK *bW, *bO;
uint64_t g_N, g_S, wq, wbi; _Bool has_q, mask_w, seen_q, cur_q; uint64_t cnt_w, moved_w, cell_q; void *g_last_block, *g_last_elem;
#define BEQ(a, b) (!(a) == !(b))
#define MASK_OK (cnt_w <= 1 && BEQ(mask_w, cnt_w == 1) && moved_w <= 1 && (moved_w == 1 ==> mask_w))
#define G_REM mask_w, cnt_w, moved_w, seen_q, cur_q, cell_q, cell_idx_o->f1, bO->f0, g_last_block, g_last_elem
#define ISPLIT_CONTRACT \
  __CPROVER_requires(v_this == g_this && v_modifiedBlocks == g_mb && v_remove == g_remove && cnt_w == 0 && moved_w == 0) \
  __CPROVER_assigns(G_REM) \
  __CPROVER_ensures(cnt_w <= 1) \
  __CPROVER_ensures(has_q ==> (cnt_w == 1 && moved_w == 1)) \
  __CPROVER_ensures(!has_q ==> moved_w == 0)
#define CONTRACT_ISPLIT_SS ISPLIT_CONTRACT
#define CONTRACT_ISPLIT_SL ISPLIT_CONTRACT
#define LOOPASG_ISPLIT_SS__L_REMOVE , G_REM
#define LOOP_ISPLIT_SS__L_REMOVE \
  __CPROVER_loop_invariant(END_ISPLIT_SS__L_REMOVE.f0 == 0 && MASK_OK && (seen_q ==> has_q) && BEQ(seen_q, moved_w == 1)) \
  __CPROVER_loop_invariant((has_q && BEGIN_ISPLIT_SS__L_REMOVE.f0 == 0) ==> seen_q)
#define LOOPASG_ISPLIT_SL__L_REMOVE , G_REM
#define LOOP_ISPLIT_SL__L_REMOVE \
  __CPROVER_loop_invariant(END_ISPLIT_SL__L_REMOVE.f1.f0 == 0 && MASK_OK && (seen_q ==> has_q) && BEQ(seen_q, moved_w == 1)) \
  __CPROVER_loop_invariant((has_q && BEGIN_ISPLIT_SL__L_REMOVE.f1.f0 == 0) ==> seen_q)
