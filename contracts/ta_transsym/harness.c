#define CANARY(n) __CPROVER_assert(0, "canary: " n " reaches the end (must FAIL)")
#define TOK ((void*)(uintptr_t)8)
#define MAYBE (nondet_bool() ? TOK : (void*)0)
_Bool nondet_bool(void); uint64_t nondet_u64(void);
uint64_t __CPROVER_uninterpreted_SYM(uint64_t s);
void AUT_COPY3(void* d, void* s, _Bool ct, _Bool cf) { __CPROVER_assert(d == (void*)g_ret && s == (void*)g_this && !ct && cf && !g_copied, "C14: the result starts as *this without rules and with its final states"); g_copied = 1; }
void AUT_DTOR(void* a) { __CPROVER_assert(0, "the result object is not destroyed"); }
void BEGIN(void* ret, void* a) { __CPROVER_assert(a == (void*)g_this, "the rules of *this are traversed"); seen = 0; ((void**)ret)[0] = has_w ? TOK : MAYBE; }
void END(void* ret, void* a) { ((void**)ret)[0] = (void*)0; }
_Bool IT_NE(void* a, void* b) { return ((void**)a)[0] != ((void**)b)[0]; }
void IT_DEREF(void* ret, void* it) { __CPROVER_assert(((void**)it)[0] != 0, "no dereference of an end iterator"); cur = has_w && nondet_bool() && !seen; if (cur) seen = 1;
  g_cq = nondet_u64(); g_ca = nondet_u64(); g_ct = nondet_u64(); if (cur) { g_cq = wq; g_ca = wa; g_ct = wtid; } else __CPROVER_assume(!has_w || !(g_cq == wq && g_ca == wa && g_ct == wtid));
  g_exp_sym = __CPROVER_uninterpreted_SYM(g_ca); }
void* GET_CHILDREN(void* t) { return &cell_children; }       /* stands for the tuple g_ct of the rule under the cursor */
uint64_t* GET_SYMBOL(void* t) { cell_sym = g_ca; return &cell_sym; }
uint64_t* GET_PARENT(void* t) { cell_parent = g_cq; return &cell_parent; }
uint64_t SYM_CALL(void* f, uint64_t* s) { return __CPROVER_uninterpreted_SYM(*s); }
void ADDT(void* a, void* ch, uint64_t* sym, uint64_t* par) { __CPROVER_assert(a == (void*)g_ret, "rules are added to the result");
  __CPROVER_assert(ch == (void*)&cell_children && *sym == g_exp_sym && *par == g_cq, "C14 provenance: the rule added is (children, SYM(symbol), parent) of the rule under the cursor"); if (cur) ins_w = 1; }
void TRANS_DTOR(void* t) { }
void* IT_INC(void* it) { ((void**)it)[0] = MAYBE; __CPROVER_assume(((void**)it)[0] != 0 || !has_w || seen); return it; }
void h_TS(void) { g_this = malloc(sizeof *g_this); g_ret = malloc(sizeof *g_ret); __CPROVER_assume(g_this && g_ret); ins_w = 0; g_copied = 0; void* f = malloc(1); TS(g_ret, g_this, f); CANARY("h_TS"); }
