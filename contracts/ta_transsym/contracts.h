/* Unit ta_transsym (DESIGN.md 5-C14, 11): ExplicitTreeAutCore::TranslateSymbols(symbTransl), instantiated with an abstract symbol functor SYM.
   The result starts as *this WITHOUT its rules and WITH its final states (copy constructor (this, copyTrans = false, copyFinal = true));
   PROVENANCE   every AddTransition on the result is (children, SYM(symbol), parent) of the rule under the cursor;
   COMPLETENESS for an arbitrary witness rule (wq, wa, wtid) of *this that call has been made when the loop finishes. */
uint64_t wq, wa, wtid; _Bool has_w;
AUT *g_this, *g_ret; _Bool seen, cur, ins_w, g_copied; uint64_t g_cq, g_ca, g_ct, g_exp_sym, cell_sym, cell_parent, cell_children;
#define TG seen, cur, ins_w, g_copied, g_cq, g_ca, g_ct, g_exp_sym, cell_sym, cell_parent
#define ITOK(it) (*(void**)&(it))
#define CONTRACT_TS \
  __CPROVER_requires(v_this == g_this && v_agg_result == g_ret && !ins_w && !g_copied) \
  __CPROVER_assigns(TG) \
  __CPROVER_ensures(g_copied) \
  __CPROVER_ensures(has_w ==> ins_w)
#define LOOPASG_TS__L_RULES , seen, cur, ins_w, g_cq, g_ca, g_ct, g_exp_sym, cell_sym, cell_parent
#define LOOP_TS__L_RULES \
  __CPROVER_loop_invariant(ITOK(END_TS__L_RULES) == 0 && g_copied) \
  __CPROVER_loop_invariant((has_w && ITOK(BEGIN_TS__L_RULES) == 0) ==> seen) \
  __CPROVER_loop_invariant((has_w && seen) ==> ins_w)
