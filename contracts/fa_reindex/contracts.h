/* Unit fa_reindex (DESIGN.md 5-C10 / C14, 11): ExplicitFiniteAutCore::ReindexStates(dst, index) -- exactly the image of *this under the state map
   IDX (the index functor, uninterpreted) is ADDED to dst:
     witness final state wf  (fin_wf)                 ==>  dst.SetStateFinal(IDX(wf))
     witness start state ws  (st_ws)                  ==>  dst.SetExistingStateStart(IDX(ws), the start symbols *this gives ws)
     witness edge wl --wa--> wr  (has_e)              ==>  IDX(wr) inserted into the target set dst holds for (IDX(wl), wa)
   Provenance (call sites): only images of the final / start state, the edge under the cursors are added; the target set written is the one
   uniqueRStateSet handed out for the symbol under the cursor in the cluster uniqueCluster handed out for IDX(the source under the cursor) of the
   map dst.uniqueClusterMap() made exclusive (C11). */
_Bool g_in_starts;
uint64_t wf, ws, wl, wa, wr; _Bool fin_wf, st_ws, has_e, fin_done, st_done, e_done;
_Bool seen_f, cur_f, seen_s, cur_s, seen_q, cur_q, seen_a, cur_a, seen_r, cur_r, g_ucm; uint64_t cell_f, cell_s, cell_r, g_cur_l, g_cur_a, g_gss_state, g_uc_key, g_urs_key;
E_CMAP cell_cm; E_CLU cell_clu; AUT *g_this, *g_dst; void *g_index, *m_src, *m_dst; SPM* cell_spm; SPC* cell_spc;
#define G_T   seen_r, cur_r, cell_r, e_done
#define G_A   G_T, seen_a, cur_a, cell_clu, g_cur_a, g_urs_key
#define G_Q   G_A, seen_q, cur_q, cell_cm, g_cur_l, g_uc_key, cell_spc->f0.f0
#define G_F   seen_f, cur_f, cell_f, fin_done
#define G_S   seen_s, cur_s, cell_s, st_done, g_gss_state
#define CONTRACT_RIS \
  __CPROVER_requires(v_this == g_this && v_dst == g_dst && v_index == g_index && !fin_done && !st_done && !e_done && !g_ucm) \
  __CPROVER_assigns(G_F, G_S, G_Q, g_ucm, g_in_starts, cell_spm->f0.f0) \
  __CPROVER_ensures((fin_wf ==> fin_done) && (st_ws ==> st_done) && (has_e ==> e_done) && g_ucm)
#define LOOPASG_RIS__L_FINALS , G_F
#define LOOP_RIS__L_FINALS \
  __CPROVER_loop_invariant(END_RIS__L_FINALS.f0.f0 == 0) \
  __CPROVER_loop_invariant((fin_wf && BEGIN_RIS__L_FINALS.f0.f0 == 0) ==> seen_f) \
  __CPROVER_loop_invariant((fin_wf && seen_f) ==> fin_done)
#define LOOPASG_RIS__L_STARTS , G_S
#define LOOP_RIS__L_STARTS \
  __CPROVER_loop_invariant(END_RIS__L_STARTS.f0.f0 == 0) \
  __CPROVER_loop_invariant((st_ws && BEGIN_RIS__L_STARTS.f0.f0 == 0) ==> seen_s) \
  __CPROVER_loop_invariant((st_ws && seen_s) ==> st_done)
#define LOOPASG_RIS__L_CLUSTERS , G_Q
#define LOOP_RIS__L_CLUSTERS \
  __CPROVER_loop_invariant(END_RIS__L_CLUSTERS.f0.f0 == 0 && g_ucm) \
  __CPROVER_loop_invariant((has_e && BEGIN_RIS__L_CLUSTERS.f0.f0 == 0) ==> seen_q) \
  __CPROVER_loop_invariant((has_e && seen_q) ==> e_done)
#define CARRY __CPROVER_loop_invariant(g_ucm && (cur_q ==> g_cur_l == wl) && g_uc_key == __CPROVER_loop_entry(g_uc_key) && ((has_e && !cur_q && seen_q) ==> e_done))
#define LOOPASG_RIS__L_SYMS , G_A
#define LOOP_RIS__L_SYMS CARRY \
  __CPROVER_loop_invariant(END_RIS__L_SYMS.f0.f0 == 0) \
  __CPROVER_loop_invariant((has_e && cur_q && BEGIN_RIS__L_SYMS.f0.f0 == 0) ==> seen_a) \
  __CPROVER_loop_invariant((has_e && cur_q && seen_a) ==> e_done)
#define LOOPASG_RIS__L_TARGETS , G_T
#define LOOP_RIS__L_TARGETS CARRY \
  __CPROVER_loop_invariant(END_RIS__L_TARGETS.f0.f0 == 0 && (cur_a ==> g_cur_a == wa) && g_urs_key == g_cur_a) \
  __CPROVER_loop_invariant((has_e && cur_q && cur_a && BEGIN_RIS__L_TARGETS.f0.f0 == 0) ==> seen_r) \
  __CPROVER_loop_invariant((has_e && cur_q && cur_a && seen_r) ==> e_done) \
  __CPROVER_loop_invariant((has_e && cur_q && !cur_a && seen_a) ==> e_done)
