#define CANARY(n) __CPROVER_assert(0, "canary: " n " reaches the end (must FAIL)")
#define TOK ((void*)(uintptr_t)8)
#define MAYBE (nondet_bool() ? TOK : (void*)0)
#define TOKSY ((void*)(uintptr_t)24)
#define TOKSET ((void*)(uintptr_t)40)
#define SP_PTR(sp) ((sp)->f0.f0)
_Bool nondet_bool(void); uint64_t nondet_u64(void);
uint64_t __CPROVER_uninterpreted_IDX(uint64_t s);
uint64_t IDX(void* ix, uint64_t* s) { __CPROVER_assert(ix == g_index, "the index passed in"); return __CPROVER_uninterpreted_IDX(*s); }
/* ---- final and start states (the same container type: told apart by the set traversed) ---- */

void* CUSET_BEGIN(void* s) { if (s == (void*)&g_this->f0) { g_in_starts = 0; seen_f = 0; cur_f = 0; return fin_wf ? TOK : MAYBE; }
  __CPROVER_assert(s == (void*)&g_this->f1, "traversal of the final or the start states of *this"); g_in_starts = 1; seen_s = 0; cur_s = 0; return st_ws ? TOK : MAYBE; }
void* CUSET_END(void* s) { return (void*)0; }
uint64_t* CUSI_DEREF(void* it_) { CUSI* it = (CUSI*)it_; __CPROVER_assert(it->f0.f0 != 0, "no dereference of an end iterator");
  if (!g_in_starts) { cur_f = fin_wf && nondet_bool() && !seen_f; if (cur_f) seen_f = 1; cell_f = nondet_u64(); if (cur_f) cell_f = wf; else __CPROVER_assume(!fin_wf || cell_f != wf); return &cell_f; }
  cur_s = st_ws && nondet_bool() && !seen_s; if (cur_s) seen_s = 1; cell_s = nondet_u64(); if (cur_s) cell_s = ws; else __CPROVER_assume(!st_ws || cell_s != ws); return &cell_s; }
void* CUSI_INC(void* it_) { CUSI* it = (CUSI*)it_; it->f0.f0 = MAYBE; if (!g_in_starts) __CPROVER_assume(it->f0.f0 != 0 || !fin_wf || seen_f); else __CPROVER_assume(it->f0.f0 != 0 || !st_ws || seen_s); return it; }
void SSF(void* a, uint64_t* x) { __CPROVER_assert(a == (void*)g_dst && !g_in_starts && *x == __CPROVER_uninterpreted_IDX(cell_f), "C10/C14: only the image of the final state under the cursor is made final in dst"); if (cell_f == wf) fin_done = 1; }
void* GSS(void* a, uint64_t s) { __CPROVER_assert(a == (void*)g_this && g_in_starts && s == cell_s, "start symbols of the start state under the cursor are taken from *this"); g_gss_state = s; return TOKSY; }
void SESS(void* a, uint64_t* x, void* syms) { __CPROVER_assert(a == (void*)g_dst && g_in_starts && *x == __CPROVER_uninterpreted_IDX(cell_s) && syms == TOKSY && g_gss_state == cell_s,
   "C10/C14: the image of the start state under the cursor becomes a start state of dst with that state's own start symbols"); if (cell_s == ws) st_done = 1; }
/* ---- dst's exclusive map, clusters, target sets ---- */
void* UCM(void* a) { __CPROVER_assert(a == (void*)g_dst && !g_ucm, "C11: dst's cluster map is made exclusive, once, before it is written"); g_ucm = 1; SP_PTR(cell_spm) = m_dst; return cell_spm; }
void SPM_COPY(void* d, void* s) { SP_PTR((SPM*)d) = SP_PTR((SPM*)s); } void SPM_DTOR(void* s) { } void SPC_DTOR(void* s) { }
void* UC(void* m, uint64_t* k) { __CPROVER_assert(m == m_dst && g_ucm && *k == __CPROVER_uninterpreted_IDX(g_cur_l), "C10/C14: the cluster written is the one of IDX(source under the cursor) in dst's exclusive map"); g_uc_key = *k; SP_PTR(cell_spc) = TOK; return cell_spc; }
void SPC_COPY(void* d, void* s) { SP_PTR((SPC*)d) = SP_PTR((SPC*)s); }
void* URS(void* c, uint64_t* sym) { __CPROVER_assert(c == TOK && *sym == g_cur_a, "the target set of the symbol under the cursor in that cluster"); g_urs_key = *sym; return TOKSET; }
USET_INSRET RSET_INSERT_MV(void* s, uint64_t* x) { __CPROVER_assert(s == TOKSET && g_urs_key == g_cur_a && g_uc_key == __CPROVER_uninterpreted_IDX(g_cur_l) && *x == __CPROVER_uninterpreted_IDX(cell_r),
   "C10/C14: only IDX(target under the cursor) is inserted, into the target set of (IDX(source), symbol) under the cursors"); if (cur_q && cur_a && cell_r == wr) e_done = 1; USET_INSRET r; r.f1 = nondet_bool(); return r; }
/* ---- the rule store of *this ---- */
void* CMAP_BEGIN(void* m) { __CPROVER_assert(m == m_src, "traversal of the cluster map of *this"); seen_q = 0; cur_q = 0; return has_e ? TOK : MAYBE; }
void* CMAP_END(void* m) { return (void*)0; }
void* CMAP_DEREF(void* it_) { CMI* it = (CMI*)it_; __CPROVER_assert(it->f0.f0 != 0, "no dereference of an end iterator"); cur_q = has_e && nondet_bool() && !seen_q; if (cur_q) seen_q = 1;
  uint64_t k = nondet_u64(); if (cur_q) k = wl; else __CPROVER_assume(!has_e || k != wl); cell_cm.f0 = k; g_cur_l = k; SP_PTR(&cell_cm.f1) = TOKSY; return &cell_cm; }
void* CMAP_INC(void* it_) { CMI* it = (CMI*)it_; it->f0.f0 = MAYBE; __CPROVER_assume(it->f0.f0 != 0 || !has_e || seen_q); return it; }
void* CLU_BEGIN(void* c) { seen_a = 0; cur_a = 0; return (has_e && cur_q) ? TOK : MAYBE; }
void* CLU_END(void* c) { return (void*)0; }
void* CLU_DEREF(void* it_) { CLI* it = (CLI*)it_; __CPROVER_assert(it->f0.f0 != 0, "no dereference of an end iterator"); cur_a = has_e && cur_q && nondet_bool() && !seen_a; if (cur_a) seen_a = 1;
  uint64_t k = nondet_u64(); if (cur_a) k = wa; else __CPROVER_assume(!(has_e && cur_q) || k != wa); cell_clu.f0 = k; g_cur_a = k; return &cell_clu; }
void* CLU_INC(void* it_) { CLI* it = (CLI*)it_; it->f0.f0 = MAYBE; __CPROVER_assume(it->f0.f0 != 0 || !(has_e && cur_q) || seen_a); return it; }
void* USET_BEGIN(void* s) { __CPROVER_assert(s == (void*)&cell_clu.f1, "the target set of the entry under the cursor"); seen_r = 0; cur_r = 0; return (has_e && cur_q && cur_a) ? TOK : MAYBE; }
void* USET_END(void* s) { return (void*)0; }
uint64_t* USI_DEREF(void* it_) { USI* it = (USI*)it_; __CPROVER_assert(it->f0.f0 != 0, "no dereference of an end iterator"); cur_r = has_e && cur_q && cur_a && nondet_bool() && !seen_r; if (cur_r) seen_r = 1;
  cell_r = nondet_u64(); if (cur_r) cell_r = wr; else __CPROVER_assume(!(has_e && cur_q && cur_a) || cell_r != wr); return &cell_r; }
void* USI_INC(void* it_) { USI* it = (USI*)it_; it->f0.f0 = MAYBE; __CPROVER_assume(it->f0.f0 != 0 || !(has_e && cur_q && cur_a) || seen_r); return it; }
void h_RIS(void) { g_this = malloc(sizeof *g_this); g_dst = malloc(sizeof *g_dst); g_index = malloc(8); m_src = malloc(64); m_dst = malloc(64); cell_spm = malloc(sizeof *cell_spm); cell_spc = malloc(sizeof *cell_spc);
  __CPROVER_assume(g_this && g_dst && g_index && m_src && m_dst && cell_spm && cell_spc && g_this != g_dst);
  SP_PTR(&g_this->f3) = m_src; fin_done = st_done = e_done = g_ucm = 0;
  RIS(g_this, g_dst, g_index); CANARY("h_RIS"); }
