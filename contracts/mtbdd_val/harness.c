/* project / rename harnesses instantiate the definition of their specification function at the nodes they touch */
#if defined(HARNESS_h_PROJECT_NODE)
#define EXTRA_UNFOLD_INT(n) PUNFOLD_INT(n)
#define EXTRA_UNFOLD_LEAF(n) PUNFOLD_LEAF(n)
#elif defined(HARNESS_h_RENAME_NODE)
#define EXTRA_UNFOLD_INT(n) RUNFOLD_INT(n)
#define EXTRA_UNFOLD_LEAF(n) RUNFOLD_LEAF(n)
#endif
#include "common/mtbdd_tab_stubs.h"
#define CANARY(n) __CPROVER_assert(0, "canary: " n " reaches the end (must FAIL)")
/* the assignment argument: position i is ONE exactly when the ghost assignment says so for variable i + g_off */
#ifndef ASG_MATCH_MODE
uint8_t ASG_GET(ASG* a, uint64_t i) { __CPROVER_assert(a == g_a, "the assignment argument"); uint8_t b = T_ASG[i]; __CPROVER_assume((b == 1 || b == 2 || b == 3) && ((b == 2) == (T_BIT[i + g_off] == 2))); return b; }
#else
/* constructMTBDD: asgn and the ghost assignment are independent; reading position i instantiates the definition of T_MATCH there */
uint8_t ASG_GET(ASG* a, uint64_t i) { __CPROVER_assert(a == g_a, "the assignment argument"); __CPROVER_assert(i < g_len, "asgn read inside its length"); uint8_t b = T_ASG[i]; __CPROVER_assume((b == 1 || b == 2 || b == 3) && MATCH_UNFOLD(i)); return b; }
uint64_t ASG_LEN(ASG* a) { __CPROVER_assert(a == g_a, "the assignment argument"); return g_len; }
#endif
#ifdef HARNESS_h_GETVALUE
void h_GETVALUE(void) { MT m; ASG* a = malloc(sizeof *a); __CPROVER_assume(a != 0); uint64_t r; m.f0.f0 = r; g_root = r; g_a = a; g_off = 0; GETVALUE(&m, a); CANARY("h_GETVALUE"); }
#endif
#ifdef HARNESS_h_PREFIX
void h_PREFIX(void) { MT m, res; ASG* a = malloc(sizeof *a); __CPROVER_assume(a != 0); uint64_t r, off; uint32_t d; m.f0.f0 = r; m.f1 = d; g_root = r; g_a = a; g_off = off; g_dflt = d; g_inc_calls = 0;
  PREFIX(&res, &m, a, &off); CANARY("h_PREFIX"); }
#endif
/* ---- leaf operations: uninterpreted ---- */
uint32_t OP1(OPS1* s, uint32_t* a) { return OPF1(*a); }
uint32_t OP2(OPS2* s, uint32_t* a, uint32_t* b) { return OPF2(*a, *b); }
uint32_t OP3(OPS3* s, uint32_t* a, uint32_t* b, uint32_t* c) { return OPF3(*a, *b, *c); }
/* ---- memo tables of the apply functors: every entry is the apply result of its key (assumed on a hit, asserted on insert) ---- */
#define TOKEN(T) ((T)(uintptr_t)8)
HT1_HN HT1_FIND(HT1_MAP* m, HT1_KEY* k) { if (nondet_bool()) return (HT1_HN)0; uint64_t c; __CPROVER_assume(APPLY1_OK(c, k->f0)); cell_hit1.f0 = *k; cell_hit1.f1.f0 = c; return TOKEN(HT1_HN); }
HT1_HN HT1_END(HT1_MAP* m) { return (HT1_HN)0; }
HT1_PAIR* HT1_ARROW(HT1_IT* it) { __CPROVER_assert(it->f0.f0 != 0, "-> on a found memo entry"); return &cell_hit1; }
HT1_INSRET HT1_INSERT(HT1_MAP* m, HT1_INSARG* kv) { __CPROVER_assert(APPLY1_OK(kv->f1.f0, kv->f0.f0), "C17 memo: inserted entry is the apply result of its key"); HT1_INSRET r; r.f0 = TOKEN(HT1_HN); r.f1 = 1; return r; }
void HT1_CLEAR(HT1_MAP* m) { g_ht_clears++; }
HT2_HN HT2_FIND(HT2_MAP* m, HT2_KEY* k) { if (nondet_bool()) return (HT2_HN)0; uint64_t c; __CPROVER_assume(APPLY2_OK(c, k->f0.f0, k->f1.f0)); cell_hit2.f0 = *k; cell_hit2.f1.f0 = c; return TOKEN(HT2_HN); }
HT2_HN HT2_END(HT2_MAP* m) { return (HT2_HN)0; }
HT2_PAIR* HT2_ARROW(HT2_IT* it) { __CPROVER_assert(it->f0.f0 != 0, "-> on a found memo entry"); return &cell_hit2; }
HT2_INSRET HT2_INSERT(HT2_MAP* m, HT2_INSARG* kv) { __CPROVER_assert(APPLY2_OK(kv->f1.f0, kv->f0.f0.f0, kv->f0.f1.f0), "C17 memo: inserted entry is the apply result of its key"); HT2_INSRET r; r.f0 = TOKEN(HT2_HN); r.f1 = 1; return r; }
void HT2_CLEAR(HT2_MAP* m) { g_ht_clears++; }
HT3_HN HT3_FIND(HT3_MAP* m, HT3_KEY* k) { if (nondet_bool()) return (HT3_HN)0; uint64_t c; __CPROVER_assume(APPLY3_OK(c, k->f0.f0, k->f1.f0, k->f2.f0)); cell_hit3.f0 = *k; cell_hit3.f1.f0 = c; return TOKEN(HT3_HN); }
HT3_HN HT3_END(HT3_MAP* m) { return (HT3_HN)0; }
HT3_PAIR* HT3_ARROW(HT3_IT* it) { __CPROVER_assert(it->f0.f0 != 0, "-> on a found memo entry"); return &cell_hit3; }
HT3_INSRET HT3_INSERT(HT3_MAP* m, HT3_INSARG* kv) { __CPROVER_assert(APPLY3_OK(kv->f1.f0, kv->f0.f0.f0, kv->f0.f1.f0, kv->f0.f2.f0), "C17 memo: inserted entry is the apply result of its key"); HT3_INSRET r; r.f0 = TOKEN(HT3_HN); r.f1 = 1; return r; }
void HT3_CLEAR(HT3_MAP* m) { g_ht_clears++; }
/* contract stubs of recDescend for the callers (same statement as CONTRACT_RECk) */
#ifdef STUB_REC1
uint64_t REC1(FUN1* f, NP* a) { __CPROVER_assert(a->f0 != 0, "recDescend precondition: non-null operand"); __CPROVER_assert(g_inc_calls == 0, "recDescend precondition: no count taken yet"); uint64_t r; __CPROVER_assume(APPLY1_OK(r, a->f0)); return r; }
#endif
#ifdef STUB_REC2
uint64_t REC2(FUN2* f, NP* a, NP* b) { __CPROVER_assert(a->f0 != 0 && b->f0 != 0, "recDescend precondition: non-null operands"); __CPROVER_assert(g_inc_calls == 0, "recDescend precondition: no count taken yet"); uint64_t r; __CPROVER_assume(APPLY2_OK(r, a->f0, b->f0)); return r; }
#endif
#ifdef STUB_REC3
uint64_t REC3(FUN3* f, uint64_t a, uint64_t b, uint64_t c) { __CPROVER_assert(a != 0 && b != 0 && c != 0, "recDescend precondition: non-null operands"); __CPROVER_assert(g_inc_calls == 0, "recDescend precondition: no count taken yet"); uint64_t r; __CPROVER_assume(APPLY3_OK(r, a, b, c)); return r; }
#endif
#ifdef HARNESS_h_REC1
void h_REC1(void) { FUN1* f = malloc(sizeof *f); __CPROVER_assume(f != 0); g_inc_calls = 0; NP* a; REC1(f, a); CANARY("h_REC1"); }
#endif
#ifdef HARNESS_h_REC2
void h_REC2(void) { FUN2* f = malloc(sizeof *f); __CPROVER_assume(f != 0); g_inc_calls = 0; NP *a, *b; REC2(f, a, b); CANARY("h_REC2"); }
#endif
#ifdef HARNESS_h_REC3
void h_REC3(void) { FUN3* f = malloc(sizeof *f); __CPROVER_assume(f != 0); g_inc_calls = 0; uint64_t a, b, c; REC3(f, a, b, c); CANARY("h_REC3"); }
#endif
#ifdef HARNESS_h_APPLY1
void h_APPLY1(void) { FUN1* f = malloc(sizeof *f); MT *a = malloc(sizeof *a), *res = malloc(sizeof *res); __CPROVER_assume(f && a && res); g_inc_calls = 0; g_ht_clears = 0; APPLY1(res, f, a); CANARY("h_APPLY1"); }
#endif
#ifdef HARNESS_h_APPLY2
void h_APPLY2(void) { FUN2* f = malloc(sizeof *f); MT *a = malloc(sizeof *a), *b = malloc(sizeof *b), *res = malloc(sizeof *res); __CPROVER_assume(f && a && b && res); _Bool same; if (same) b = a; g_inc_calls = 0; g_ht_clears = 0; APPLY2(res, f, a, b); CANARY("h_APPLY2"); }
#endif
#ifdef HARNESS_h_APPLY2N
void h_APPLY2N(void) { FUN2* f = malloc(sizeof *f); NP *a = malloc(sizeof *a), *b = malloc(sizeof *b); __CPROVER_assume(f && a && b); g_inc_calls = 0; g_ht_clears = 0; APPLY2N(f, a, b); CANARY("h_APPLY2N"); }
#endif
#ifdef HARNESS_h_APPLY3
void h_APPLY3(void) { FUN3* f = malloc(sizeof *f); MT *a = malloc(sizeof *a), *b = malloc(sizeof *b), *c = malloc(sizeof *c), *res = malloc(sizeof *res); __CPROVER_assume(f && a && b && c && res); g_inc_calls = 0; g_ht_clears = 0; APPLY3(res, f, a, b, c); CANARY("h_APPLY3"); }
#endif

#if defined(HARNESS_h_CONSTRUCT_ID) || defined(HARNESS_h_CONSTRUCT_OFF)
static void construct_setup(void) { g_a = malloc(sizeof *g_a); g_dfltp = malloc(sizeof *g_dfltp); g_offp = malloc(sizeof *g_offp); __CPROVER_assume(g_a && g_dfltp && g_offp); g_dflt = *g_dfltp; g_inc_calls = 0; g_dleaf_calls = 0; }
void h_CONSTRUCT_ID(void) { construct_setup(); g_off = 0; CONSTRUCT_ID(g_a, g_node, g_dfltp); CANARY("h_CONSTRUCT_ID"); }
void h_CONSTRUCT_OFF(void) { construct_setup(); g_off = *g_offp; CONSTRUCT_OFF(g_a, g_node, g_dfltp, g_offp); CANARY("h_CONSTRUCT_OFF"); }
#endif

_Bool PRED(void* self, uint64_t v) { return T_PRED[v] != 0; }
uint64_t REN(void* self, uint64_t v) { return T_REN[v]; }
#ifdef STUB_APPLY2N
uint64_t APPLY2N(FUN2* f, NP* a, NP* b) { __CPROVER_assert(a->f0 != 0 && b->f0 != 0, "apply precondition: non-null operands"); uint64_t r; __CPROVER_assume(APPLY2_OK(r, a->f0, b->f0)); return r; }
#endif
#ifdef STUB_PROJECT_NODE
uint64_t PROJECT_NODE(uint64_t n, OPS2* f, uint32_t* d) { __CPROVER_assert(n != 0 && g_inc_calls == 0, "projectNode precondition"); uint64_t r; __CPROVER_assume(r != 0 && T_VAL[r] == T_PVAL[n] && LEVEL(r) <= LEVEL(n)); return r; }
#endif
#ifdef STUB_RENAME_NODE
uint64_t RENAME_NODE(uint64_t n, void* ren) { __CPROVER_assert(n != 0 && g_inc_calls == 0, "renameNode precondition"); uint64_t r; __CPROVER_assume(r != 0 && T_VAL[r] == T_RVAL[n] && LEVEL(r) == RLEVEL(n)); return r; }
#endif
#ifdef STUB_CONSTRUCT_OFF
uint64_t CONSTRUCT_OFF(ASG* a, uint64_t n, uint32_t* d, uint64_t* off) { g_cons_calls++; g_cons_asgn = a; g_cons_node = n; g_cons_dflt = *d; g_cons_off = *off; uint64_t r; g_cons_ret = r; return r; }
#endif
#ifdef STUB_CONSTRUCT_ID
uint64_t CONSTRUCT_ID(ASG* a, uint64_t n, uint32_t* d) { g_cons_calls++; g_cons_asgn = a; g_cons_node = n; g_cons_dflt = *d; g_cons_off = 0; uint64_t r; g_cons_ret = r; return r; }
#endif
#ifdef STUB_CONSTRUCT3
uint64_t CONSTRUCT3(ASG* a, uint32_t* v, uint32_t* d) { g_cons_calls++; g_cons_asgn = a; g_cons_value = *v; g_cons_dflt = *d; uint64_t r; g_cons_ret = r; return r; }
#endif
#ifdef HARNESS_h_PROJECT_NODE
void h_PROJECT_NODE(void) { OPS2* f = malloc(sizeof *f); uint32_t* d = malloc(sizeof *d); __CPROVER_assume(f && d); uint64_t n; g_inc_calls = 0; PROJECT_NODE(n, f, d); CANARY("h_PROJECT_NODE"); }
#endif
#ifdef HARNESS_h_RENAME_NODE
void h_RENAME_NODE(void) { void* r = malloc(1); uint64_t n; g_inc_calls = 0; RENAME_NODE(n, r); CANARY("h_RENAME_NODE"); }
#endif
#if defined(HARNESS_h_PROJECT) || defined(HARNESS_h_RENAME) || defined(HARNESS_h_EXTEND) || defined(HARNESS_h_ACTOR) || defined(HARNESS_h_CONSTRUCT3)
void h_PROJECT(void) { OPS2* f = malloc(sizeof *f); MT *m = malloc(sizeof *m), *res = malloc(sizeof *res); __CPROVER_assume(f && m && res); g_inc_calls = 0; PROJECT(res, m, f); CANARY("h_PROJECT"); }
void h_RENAME(void) { MT *m = malloc(sizeof *m), *res = malloc(sizeof *res); __CPROVER_assume(m && res); g_inc_calls = 0; RENAME(res, m); CANARY("h_RENAME"); }
void h_EXTEND(void) { MT *m = malloc(sizeof *m), *res = malloc(sizeof *res); ASG* a = malloc(sizeof *a); uint64_t* off = malloc(sizeof *off); __CPROVER_assume(m && res && a && off); g_inc_calls = 0; g_cons_calls = 0; EXTEND(res, m, a, off); CANARY("h_EXTEND"); }
void h_ACTOR(void) { MT *m = malloc(sizeof *m); ASG* a = malloc(sizeof *a); uint32_t *v = malloc(sizeof *v), *d = malloc(sizeof *d); __CPROVER_assume(m && a && v && d); g_inc_calls = 0; g_cons_calls = 0; ACTOR(m, a, v, d); CANARY("h_ACTOR"); }
void h_CONSTRUCT3(void) { ASG* a = malloc(sizeof *a); uint32_t *v = malloc(sizeof *v), *d = malloc(sizeof *d); __CPROVER_assume(a && v && d); g_inc_calls = 0; g_cons_calls = 0; CONSTRUCT3(a, v, d); CANARY("h_CONSTRUCT3"); }
#endif
