/* Unit mtbdd_val (DESIGN.md 5-C17): pointwise correctness of the traversing / recursive functions of the MTBDD
   package for an ARBITRARY ghost assignment (table T_BIT), over the field tables of layer 2. */
#include "common/mtbdd_tab.h"
ASG* g_a; uint64_t g_root, g_off; uint32_t g_dflt;
extern uint8_t T_ASG[__CPROVER_constant_infinity_uint];      /* content of the SymbolicVarAsgn argument: 1=ZERO 2=ONE 3=DONT_CARE */

/* GetValue(asgn): the value of the root under asgn (don't-care read as 0, as the code documents); here T_BIT[i] is asgn[i] */
#define CONTRACT_GETVALUE \
  __CPROVER_requires(v_this->f0.f0 == g_root && g_root != 0 && v_asgn == g_a && g_off == 0) \
  __CPROVER_assigns(TAB_GHOSTS) \
  __CPROVER_ensures(*__CPROVER_return_value == T_VAL[g_root])
#define LOOPASG_GETVALUE__B_while_cond , TAB_GHOSTS
#define LOOP_GETVALUE__B_while_cond \
  __CPROVER_loop_invariant(v_node_slot.f0 != 0 && T_VAL[v_node_slot.f0] == T_VAL[g_root] && v_asgn_addr_slot == g_a) \
  __CPROVER_decreases(LEVEL(v_node_slot.f0))

/* GetMtbddForPrefix(asgn, offset): the sub-diagram selected by asgn on the variables >= offset (T_BIT[v] is asgn[v-offset] there and
   arbitrary below): same value as the root under every such assignment, no variable >= offset left on top, one new counted handle */
#define CONTRACT_PREFIX \
  __CPROVER_requires(v_this->f0.f0 == g_root && g_root != 0 && v_asgn == g_a && *v_offset == g_off && v_this->f1 == g_dflt && g_inc_calls == 0) \
  __CPROVER_assigns(TAB_GHOSTS, v_agg_result->f0.f0, v_agg_result->f1) \
  __CPROVER_ensures(v_agg_result->f0.f0 != 0 && T_VAL[v_agg_result->f0.f0] == T_VAL[g_root]) \
  __CPROVER_ensures(ISLEAF(v_agg_result->f0.f0) || T_VAR[v_agg_result->f0.f0] < g_off) \
  __CPROVER_ensures(v_agg_result->f1 == g_dflt && g_inc_calls == 1 && g_inc_arg == v_agg_result->f0.f0)
#define LOOPASG_PREFIX__B_while_cond , TAB_GHOSTS
#define LOOP_PREFIX__B_while_cond \
  __CPROVER_loop_invariant(v_newRoot_slot.f0 != 0 && T_VAL[v_newRoot_slot.f0] == T_VAL[g_root] && v_asgn_addr_slot == g_a && v_offset_addr_slot == v_offset && v_this_addr_slot == v_this && g_inc_calls == 0) \
  __CPROVER_decreases(LEVEL(v_newRoot_slot.f0))

/* ---------------- Apply1/2/3Functor::recDescend: pointwise correctness of apply for the arbitrary ghost assignment ------------- */
uint64_t __CPROVER_uninterpreted_OP1(uint32_t a);
uint64_t __CPROVER_uninterpreted_OP2(uint32_t a, uint32_t b);
uint64_t __CPROVER_uninterpreted_OP3(uint32_t a, uint32_t b, uint32_t c);
#define OPF1(a)     ((uint32_t)__CPROVER_uninterpreted_OP1(a))
#define OPF2(a,b)   ((uint32_t)__CPROVER_uninterpreted_OP2(a,b))
#define OPF3(a,b,c) ((uint32_t)__CPROVER_uninterpreted_OP3(a,b,c))
#define MAX2(a,b)   ((a) > (b) ? (a) : (b))
/* the result denotes op(f1[,f2[,f3]]) and has no variable above the operands' top variables (keeps the output ordered) */
#define APPLY1_OK(r,a)     ((r) != 0 && T_VAL[r] == OPF1(T_VAL[a]) && LEVEL(r) <= LEVEL(a))
#define APPLY2_OK(r,a,b)   ((r) != 0 && T_VAL[r] == OPF2(T_VAL[a], T_VAL[b]) && LEVEL(r) <= MAX2(LEVEL(a), LEVEL(b)))
#define APPLY3_OK(r,a,b,c) ((r) != 0 && T_VAL[r] == OPF3(T_VAL[a], T_VAL[b], T_VAL[c]) && LEVEL(r) <= MAX2(LEVEL(a), MAX2(LEVEL(b), LEVEL(c))))
HT1_PAIR cell_hit1; HT2_PAIR cell_hit2; HT3_PAIR cell_hit3; uint64_t g_ht_clears;
#define REC_GHOSTS TAB_GHOSTS, cell_hit1, cell_hit2, cell_hit3
#define CONTRACT_REC1 \
  __CPROVER_requires(__CPROVER_is_fresh(v_node1, sizeof(NP)) && v_node1->f0 != 0 && g_inc_calls == 0) \
  __CPROVER_assigns(REC_GHOSTS) \
  __CPROVER_ensures(APPLY1_OK(__CPROVER_return_value, v_node1->f0) && g_inc_calls == 0 /* the result is floating: recDescend itself counts nothing (C18) */)
#define CONTRACT_REC2 \
  __CPROVER_requires(__CPROVER_is_fresh(v_node1, sizeof(NP)) && __CPROVER_is_fresh(v_node2, sizeof(NP)) && v_node1->f0 != 0 && v_node2->f0 != 0 && g_inc_calls == 0) \
  __CPROVER_assigns(REC_GHOSTS) \
  __CPROVER_ensures(APPLY2_OK(__CPROVER_return_value, v_node1->f0, v_node2->f0) && g_inc_calls == 0)
#define CONTRACT_REC3 \
  __CPROVER_requires(v_node1_coerce != 0 && v_node2_coerce != 0 && v_node3_coerce != 0 && g_inc_calls == 0) \
  __CPROVER_assigns(REC_GHOSTS) \
  __CPROVER_ensures(APPLY3_OK(__CPROVER_return_value, v_node1_coerce, v_node2_coerce, v_node3_coerce) && g_inc_calls == 0)

/* ---------------- Apply*::operator(): result handle = apply of the roots, default = op of the defaults, one counted handle, memo cleared first */
#define APPLY_FRAME REC_GHOSTS, g_ht_clears, v_agg_result->f0.f0, v_agg_result->f1
#define CONTRACT_APPLY1 \
  __CPROVER_requires(v_mtbdd1->f0.f0 != 0 && g_inc_calls == 0 && g_ht_clears == 0) \
  __CPROVER_assigns(APPLY_FRAME, v_this->f0) \
  __CPROVER_ensures(APPLY1_OK(v_agg_result->f0.f0, v_mtbdd1->f0.f0) && v_agg_result->f1 == OPF1(v_mtbdd1->f1)) \
  __CPROVER_ensures(g_inc_calls == 1 && g_inc_arg == v_agg_result->f0.f0 && g_ht_clears == 1)
#define CONTRACT_APPLY2 \
  __CPROVER_requires(v_mtbdd1->f0.f0 != 0 && v_mtbdd2->f0.f0 != 0 && g_inc_calls == 0 && g_ht_clears == 0) \
  __CPROVER_assigns(APPLY_FRAME, v_this->f0, v_this->f1) \
  __CPROVER_ensures(APPLY2_OK(v_agg_result->f0.f0, v_mtbdd1->f0.f0, v_mtbdd2->f0.f0) && v_agg_result->f1 == OPF2(v_mtbdd1->f1, v_mtbdd2->f1)) \
  __CPROVER_ensures(g_inc_calls == 1 && g_inc_arg == v_agg_result->f0.f0 && g_ht_clears == 1)
#define CONTRACT_APPLY2N \
  __CPROVER_requires(v_node1->f0 != 0 && v_node2->f0 != 0 && g_inc_calls == 0 && g_ht_clears == 0) \
  __CPROVER_assigns(REC_GHOSTS, g_ht_clears, v_this->f0, v_this->f1) \
  __CPROVER_ensures(APPLY2_OK(__CPROVER_return_value, v_node1->f0, v_node2->f0) && g_inc_calls == 0 && g_ht_clears == 1)
#define CONTRACT_APPLY3 \
  __CPROVER_requires(v_mtbdd1->f0.f0 != 0 && v_mtbdd2->f0.f0 != 0 && v_mtbdd3->f0.f0 != 0 && g_inc_calls == 0 && g_ht_clears == 0) \
  __CPROVER_assigns(APPLY_FRAME, v_this->f0, v_this->f1, v_this->f2) \
  __CPROVER_ensures(APPLY3_OK(v_agg_result->f0.f0, v_mtbdd1->f0.f0, v_mtbdd2->f0.f0, v_mtbdd3->f0.f0) && v_agg_result->f1 == OPF3(v_mtbdd1->f1, v_mtbdd2->f1, v_mtbdd3->f1)) \
  __CPROVER_ensures(g_inc_calls == 1 && g_inc_arg == v_agg_result->f0.f0 && g_ht_clears == 1)

/* ---------------- constructMTBDD(asgn, node, default, varTrans): the diagram that selects `node` on the assignments matching asgn
   (on its non-X positions, variable i of asgn being variable i+off of the diagram) and is `default` elsewhere ---------------------- */
extern uint8_t T_MATCH[__CPROVER_constant_infinity_uint];   /* T_MATCH[i] != 0: the ghost assignment matches asgn on positions < i */
uint64_t g_len, g_node; uint32_t* g_dfltp; uint64_t* g_offp;
#define STEP(i)  (T_ASG[i] == 2 ? T_BIT[(i) + g_off] == 2 : (T_ASG[i] == 1 ? T_BIT[(i) + g_off] != 2 : 1))
#define MATCH_UNFOLD(i) ((T_MATCH[(i) + 1] != 0) == (T_MATCH[i] != 0 && STEP(i)))
#define SEL(i)   ((uint32_t)(T_MATCH[i] != 0 ? T_VAL[g_node] : g_dflt))
#define PRE_CONSTRUCT \
  __CPROVER_requires(v_asgn == g_a && v_node_coerce == g_node && g_node != 0 && v_defaultValue == g_dfltp && *g_dfltp == g_dflt) \
  __CPROVER_requires(LEVEL(g_node) <= g_off /* variables of node lie below the translated range */ && g_len < UINT64_MAX - g_off /* no wrap of var + offset */) \
  __CPROVER_requires(T_MATCH[0] != 0 && g_inc_calls == 0 && g_dleaf_calls == 0)
#define POST_CONSTRUCT(r) \
  __CPROVER_ensures((r) != 0 && T_VAL[r] == SEL(g_len)) \
  __CPROVER_ensures(LEVEL(r) <= g_len + g_off) \
  __CPROVER_ensures(g_inc_calls == 1 && g_inc_arg == (r))       /* the returned root is counted exactly once (C18) */ \
  __CPROVER_ensures(g_dleaf_calls <= 1 && (g_dleaf_calls == 1 ==> (ISLEAF(g_dleaf_arg) && T_DATA[g_dleaf_arg] == g_dflt && (r) == g_node)))  /* only the unused sink may be disposed of */
#define CONTRACT_CONSTRUCT_ID  PRE_CONSTRUCT __CPROVER_requires(g_off == 0) __CPROVER_assigns(TAB_GHOSTS) POST_CONSTRUCT(__CPROVER_return_value)
#define CONTRACT_CONSTRUCT_OFF PRE_CONSTRUCT __CPROVER_requires(v_varTrans_coerce == g_offp && *g_offp == g_off) __CPROVER_assigns(TAB_GHOSTS) POST_CONSTRUCT(__CPROVER_return_value)
#define INV_CONSTRUCT \
  __CPROVER_loop_invariant(v_i_slot <= g_len && v_asgn_addr_slot == g_a && v_defaultValue_addr_slot == g_dfltp && v_node_slot.f0 == g_node) \
  __CPROVER_loop_invariant(v_sink_slot.f0 != 0 && ISLEAF(v_sink_slot.f0) && T_DATA[v_sink_slot.f0] == g_dflt && T_VAL[v_sink_slot.f0] == g_dflt) \
  __CPROVER_loop_invariant(v_procNode_slot.f0 != 0 && v_procNode_slot.f0 != v_sink_slot.f0 && T_VAL[v_procNode_slot.f0] == SEL(v_i_slot) && LEVEL(v_procNode_slot.f0) <= v_i_slot + g_off) \
  __CPROVER_loop_invariant(g_inc_calls == 0 && g_dleaf_calls == 0)
#define DEC_CONSTRUCT __CPROVER_decreases(g_len - v_i_slot)
#define LOOPASG_CONSTRUCT_ID__B_for_cond , TAB_GHOSTS
#define LOOP_CONSTRUCT_ID__B_for_cond INV_CONSTRUCT DEC_CONSTRUCT
#define LOOPASG_CONSTRUCT_OFF__B_for_cond , TAB_GHOSTS
#define LOOP_CONSTRUCT_OFF__B_for_cond INV_CONSTRUCT __CPROVER_loop_invariant(v_varTrans_slot.f0 == g_offp && *g_offp == g_off) DEC_CONSTRUCT

/* ---------------- projectNode / renameNode: the value of the result under the ghost assignment is the projected / renamed value of
   the operand; T_PVAL / T_RVAL are the specification functions, unfolded at the nodes the function touches ------------------------ */
extern uint32_t T_PVAL[__CPROVER_constant_infinity_uint];
extern uint32_t T_RVAL[__CPROVER_constant_infinity_uint];
extern uint8_t  T_PRED[__CPROVER_constant_infinity_uint];     /* the variable predicate of Project (uninterpreted) */
extern uint64_t T_REN[__CPROVER_constant_infinity_uint];      /* the renaming function of Rename (uninterpreted, strictly monotone: documented @note) */
#define PUNFOLD_LEAF(n) (T_PVAL[n] == T_DATA[n])
#define PUNFOLD_INT(n)  (T_PVAL[n] == (T_PRED[T_VAR[n]] != 0 ? OPF2(T_PVAL[T_LOW[n]], T_PVAL[T_HIGH[n]]) : (T_BIT[T_VAR[n]] == 2 ? T_PVAL[T_HIGH[n]] : T_PVAL[T_LOW[n]])))
#define RLEVEL(n)       (ISLEAF(n) ? (uint64_t)0 : T_REN[T_VAR[n]] + 1)
#define RUNFOLD_LEAF(n) (T_RVAL[n] == T_DATA[n])
#define RUNFOLD_INT(n)  (T_RVAL[n] == (T_BIT[T_REN[T_VAR[n]]] == 2 ? T_RVAL[T_HIGH[n]] : T_RVAL[T_LOW[n]]) \
                         && T_REN[T_VAR[n]] < UINT64_MAX && RLEVEL(T_LOW[n]) <= T_REN[T_VAR[n]] && RLEVEL(T_HIGH[n]) <= T_REN[T_VAR[n]] /* monotone renamer, instantiated */)
#define CONTRACT_PROJECT_NODE \
  __CPROVER_requires(v_node_coerce != 0 && g_inc_calls == 0) \
  __CPROVER_assigns(REC_GHOSTS) \
  __CPROVER_ensures(__CPROVER_return_value != 0 && T_VAL[__CPROVER_return_value] == T_PVAL[v_node_coerce] && LEVEL(__CPROVER_return_value) <= LEVEL(v_node_coerce) && g_inc_calls == 0)
#define CONTRACT_RENAME_NODE \
  __CPROVER_requires(v_node_coerce != 0 && g_inc_calls == 0) \
  __CPROVER_assigns(REC_GHOSTS) \
  __CPROVER_ensures(__CPROVER_return_value != 0 && T_VAL[__CPROVER_return_value] == T_RVAL[v_node_coerce] && LEVEL(__CPROVER_return_value) == RLEVEL(v_node_coerce) && g_inc_calls == 0)
/* Project / Rename / ExtendWith / OndriksMTBDD(asgn, value, default) / constructMTBDD(asgn, value, default): one new, counted handle */
#define CONTRACT_PROJECT \
  __CPROVER_requires(v_this->f0.f0 != 0 && g_inc_calls == 0) \
  __CPROVER_assigns(REC_GHOSTS, v_agg_result->f0.f0, v_agg_result->f1) \
  __CPROVER_ensures(v_agg_result->f0.f0 != 0 && T_VAL[v_agg_result->f0.f0] == T_PVAL[v_this->f0.f0] && v_agg_result->f1 == v_this->f1 && g_inc_calls == 1 && g_inc_arg == v_agg_result->f0.f0)
#define CONTRACT_RENAME \
  __CPROVER_requires(v_this->f0.f0 != 0 && g_inc_calls == 0) \
  __CPROVER_assigns(REC_GHOSTS, v_agg_result->f0.f0, v_agg_result->f1) \
  __CPROVER_ensures(v_agg_result->f0.f0 != 0 && T_VAL[v_agg_result->f0.f0] == T_RVAL[v_this->f0.f0] && v_agg_result->f1 == v_this->f1 && g_inc_calls == 1 && g_inc_arg == v_agg_result->f0.f0)
uint64_t g_cons_calls, g_cons_node, g_cons_ret; ASG* g_cons_asgn; uint32_t g_cons_dflt, g_cons_value; uint64_t g_cons_off;
#define CONS_GHOSTS g_cons_calls, g_cons_node, g_cons_ret, g_cons_asgn, g_cons_dflt, g_cons_off, g_cons_value
#define CONTRACT_EXTEND \
  __CPROVER_requires(v_this->f0.f0 != 0 && g_cons_calls == 0) \
  __CPROVER_assigns(REC_GHOSTS, CONS_GHOSTS, v_agg_result->f0.f0, v_agg_result->f1) \
  /* exactly one constructMTBDD(asgn, root, default, var -> var + offset); its (already counted) result becomes the new handle */ \
  __CPROVER_ensures(g_cons_calls == 1 && g_cons_asgn == v_asgn && g_cons_node == v_this->f0.f0 && g_cons_dflt == v_this->f1 && g_cons_off == *v_offset) \
  __CPROVER_ensures(v_agg_result->f0.f0 == g_cons_ret && v_agg_result->f1 == v_this->f1 && g_inc_calls == 0)
#define CONTRACT_CONSTRUCT3 \
  __CPROVER_requires(g_cons_calls == 0) \
  __CPROVER_assigns(REC_GHOSTS, CONS_GHOSTS) \
  /* constructMTBDD(asgn, leaf(value), default, identity) */ \
  __CPROVER_ensures(g_cons_calls == 1 && g_cons_asgn == v_asgn && ISLEAF(g_cons_node) && T_DATA[g_cons_node] == *v_value && g_cons_dflt == *v_defaultValue && __CPROVER_return_value == g_cons_ret && g_inc_calls == 0)
#define CONTRACT_ACTOR \
  __CPROVER_requires(g_cons_calls == 0) \
  __CPROVER_assigns(REC_GHOSTS, CONS_GHOSTS, v_this->f0.f0, v_this->f1) \
  __CPROVER_ensures(g_cons_calls == 1 && g_cons_asgn == v_asgn && g_cons_value == *v_value && g_cons_dflt == *v_defaultValue && v_this->f0.f0 == g_cons_ret && v_this->f1 == *v_defaultValue && g_inc_calls == 0)
