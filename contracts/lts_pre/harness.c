#define CANARY(n) __CPROVER_assert(0, "canary: " n " reaches the end (must FAIL)")
_Bool nondet_bool(void); uint64_t nondet_u64(void);
#define TOK ((void*)(uintptr_t)8)
#define MAYBE (nondet_bool() ? TOK : (void*)0)
#define TOKV(i) ((void*)(uintptr_t)(((i) + 1) * 8))
#define IDXV(p) ((uint64_t)(uintptr_t)(p) / 8 - 1)
#define TOKW ((uint64_t*)(uintptr_t)16)
#define TOKO ((uint64_t*)(uintptr_t)24)
typedef struct { void* p; } ITP;
uint64_t PART_SIZE(void* v) { __CPROVER_assert(v == (void*)&g_this->f5, "size of partition_"); return g_N; }
void ALB_CTOR(void* a) { } void ALB_DTOR(void* a) { } void VB_DTOR(void* v) { }
void VB_CTOR(void* v, uint64_t n, uint8_t* val, void* a) { __CPROVER_assert(n == g_N, "blockMask has one bit per block"); mask_w = (*val != 0); }
BITREF_RET VB_AT(void* v, uint64_t i) { __CPROVER_assert(i < g_N, "C20: blockMask is indexed within its size"); BITREF_RET r; r.f0 = (i == wbi) ? TOKW : TOKO; r.f1 = 1; return r; }
_Bool BITREF_BOOL(void* r) { return ((BITREF*)r)->f0 == TOKW ? mask_w : nondet_bool(); }
void* BITREF_ASSIGN(void* r, _Bool b) { if (((BITREF*)r)->f0 == TOKW) mask_w = b; return r; }
void* LTS_PRE(void* lts, uint64_t a) { __CPROVER_assert(lts == g_lts && a == g_label && a < g_L, "C20: pre() of the engine's system for the label asked for, below the number of labels"); return g_prevv; }
void* VVC_AT(void* vv, uint64_t i) { __CPROVER_assert(vv == g_prevv && i < g_S, "C20: pre(label) is indexed below the number of states"); return TOKV(i); }
uint64_t* VC_BEGIN(void* vec) { g_vidx = IDXV(vec); has_cur = (g_vidx == we && has_q); seen_q = 0; cur_q = 0; return has_cur ? TOK : MAYBE; }
uint64_t* VC_END(void* vec) { return (uint64_t*)0; }
uint64_t* CNI_DEREF(void* it) { __CPROVER_assert(((ITP*)it)->p != 0, "no dereference of an end iterator");
  cur_q = has_cur && nondet_bool() && !seen_q; if (cur_q) seen_q = 1;
  cell_q = nondet_u64(); if (cur_q) cell_q = wq; __CPROVER_assume(cell_q < g_S);     /* invariant of the system: states below states() */
  return &cell_q; }
void* CNI_INC(void* it) { ((ITP*)it)->p = MAYBE; __CPROVER_assume(((ITP*)it)->p != 0 || !has_cur || seen_q); return it; }
void* IDX_AT(void* v, uint64_t q) { __CPROVER_assert(v == (void*)&g_this->f7 && q < g_S, "C20: index_ is indexed below the number of states");
  _Bool w = (q == wq) || nondet_bool(); bO->f0 = nondet_u64(); __CPROVER_assume(bO->f0 < g_N && bO->f0 != wbi);   /* engine invariant: block indices below partition_.size() and unique */
  cell_idx->f1 = w ? bW : bO; g_last_block = cell_idx->f1; return cell_idx; }
void BLK_PUSH(void* v, BLOCK** pb) { __CPROVER_assert(v == g_pre, "blocks are collected in the list passed in");
  __CPROVER_assert((void*)*pb == g_last_block, "C16: only the block of the predecessor under the cursor is collected");
  if (*pb == bW) { __CPROVER_assert(cnt_w == 0, "C16: a block is collected at most once"); cnt_w++; } }
void h_BPRE(void) { g_this = malloc(sizeof *g_this); g_pre = malloc(8); g_lts = malloc(8); g_prevv = malloc(8); bW = malloc(sizeof *bW); bO = malloc(sizeof *bO); cell_idx = malloc(sizeof *cell_idx);
  nH = malloc(sizeof *nH); nG0 = malloc(sizeof *nG0); nX = malloc(sizeof *nX); nG1 = malloc(sizeof *nG1);
  __CPROVER_assume(g_this && g_pre && g_lts && g_prevv && bW && bO && cell_idx && nH && nG0 && nX && nG1);
  g_this->f0 = g_lts; bW->f0 = wbi; __CPROVER_assume(wbi < g_N && g_N < ((uint64_t)1 << 48) && g_S < ((uint64_t)1 << 48) && SHAPE && g_label < g_L); cnt_w = 0;
  BPRE(g_this, g_pre, nH, g_label); CANARY("h_BPRE"); }
