/* Unit lts_pre (DESIGN.md 5-C16, 11): SimulationEngine::buildPre(pre, states, label) -- collects, exactly once each, the blocks that hold a
   `label`-predecessor of a state of the circular list `states`.  Witness: a state we (in the list iff has_e), a predecessor wq (in
   pre(label)[we] iff has_q) and its block bW = index_[wq].block_ (index wbi):
     (has_e && has_q)  ==>  bW is collected                      (completeness: nothing is skipped)
     bW is collected at most once                                  (cnt_w <= 1: blockMask; engine invariant: a block's index identifies it)
     every collected block is the block of the predecessor under the cursor   (call-site obligation of push_back)
   C20: blockMask is indexed below partition_.size(), index_ and pre(label) below the number of states. */
ENG* g_this; void *g_pre, *g_lts, *g_prevv; SLE *nH, *nG0, *nX, *nG1, *cell_idx; BLOCK *bW, *bO;
uint64_t g_label, g_L, g_N, g_S, we, wq, wbi; _Bool has_e, has_q, xp;
_Bool mask_w, has_cur, seen_q, cur_q; uint64_t cnt_w, cell_q, g_vidx; void* g_last_block;
#define BEQ(a, b) (!(a) == !(b))
#define E0 (xp ? nX : nH)
#define SHAPE (BEQ(xp, has_e && nH->f0 != we) && (nH->f0 == we ==> has_e) && nG0->f0 != we && nG1->f0 != we && (xp ==> nX->f0 == we) \
   && nH->f0 < g_S && nG0->f0 < g_S && nG1->f0 < g_S && nX->f0 < g_S \
   && (nH->f2 == nG0 || nH->f2 == E0) && (nG0->f2 == nG0 || nG0->f2 == E0) && (nX->f2 == nG1 || nX->f2 == nH) && (nG1->f2 == nG1 || nG1->f2 == nH))
#define MASK_OK (cnt_w <= 1 && BEQ(mask_w, cnt_w == 1))
#define GOT(n) (((n)->f0 == we && has_q) ==> mask_w)
#define G_GEN nG0->f0, nG0->f2, nG1->f0, nG1->f2
#define G_Q   mask_w, cnt_w, seen_q, cur_q, cell_q, cell_idx->f1, bO->f0, g_last_block
#define CONTRACT_BPRE \
  __CPROVER_requires(v_this == g_this && v_pre == g_pre && v_states == nH && v_label == g_label && g_label < g_L && cnt_w == 0 && SHAPE) \
  __CPROVER_assigns(G_Q, G_GEN, has_cur, g_vidx) \
  __CPROVER_ensures(cnt_w <= 1) \
  __CPROVER_ensures((has_e && has_q) ==> cnt_w == 1)
#define LOOPASG_BPRE__L_LIST , G_Q, G_GEN, has_cur, g_vidx
#define LOOP_BPRE__L_LIST \
  __CPROVER_loop_invariant(SHAPE && MASK_OK) \
  __CPROVER_loop_invariant(v_elem_slot == nH || v_elem_slot == nG0 || (xp && (v_elem_slot == nX || v_elem_slot == nG1))) \
  __CPROVER_loop_invariant(v_elem_slot != nH ==> GOT(nH)) \
  __CPROVER_loop_invariant((xp && v_elem_slot == nG1) ==> GOT(nX))
#define LOOPASG_BPRE__L_Q , G_Q
#define LOOP_BPRE__L_Q \
  __CPROVER_loop_invariant(END_BPRE__L_Q.f0 == 0 && MASK_OK && (__CPROVER_loop_entry(mask_w) ==> mask_w)) \
  __CPROVER_loop_invariant((has_cur && BEGIN_BPRE__L_Q.f0 == 0) ==> seen_q) \
  __CPROVER_loop_invariant((has_cur && seen_q) ==> mask_w)
