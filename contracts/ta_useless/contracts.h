/* Unit ta_useless (DESIGN.md 5-C03, 11): ExplicitTreeAutCore::RemoveUselessStates -- bottom-up productivity (work list + per-rule "children still
   missing" sets), then the productive rules are copied and unreachable states pruned.
   Tracked: the WITNESS RULE W = (wq, wa, wtid) of *this (exists iff has_w; a leaf rule iff w_leaf) and one WITNESS CHILD wc of it; its TransitionInfo
   object is the static cell cell_tiw (every other info: cell_tio); a witness final state wf.  r_x = "x in reachableStates" (the productive set),
   pend_wc = "wc on the work list", rt_w = "W's info in reachableTransitions", sm_w = "W's info registered in stateMap[wc]", w_erased = "reachedBy(wc)
   was called on W's info".  g_rem is the SPECIFICATION of the counter `remaining`: +1 per (rule, distinct child) registered, -1 per rule completed.
   (U1) SOUND     every state entering reachableStates / the work list is productive (T_PROD; a leaf rule makes its parent productive, a completed rule too)
   (U2) LEAVES    a leaf rule of *this is always kept:  has_w && w_leaf ==> rt_w
   (U3) KEPT RULES  a non-leaf rule that is kept has had its witness child processed:  rt_w && !w_leaf ==> r_wc
   (U4) REGISTERED  a non-leaf rule is registered under each of its children:  has_w && !w_leaf ==> sm_w;  processing wc reaches it (w_erased)
   (U5) COUNTER   the code's `remaining` equals g_rem at every loop head; the "nothing useless" shortcut is taken iff g_rem == 0
   (U6) RESULT    final states of the result = final states of *this that are productive; without the shortcut the rules added to the result are
                  exactly the fields of the infos in reachableTransitions (for W: (tuple wtid, wa, wq)); the result goes through RemoveUnreachableStates. */
#include "common/sp_ghost.h"
extern uint8_t T_PROD[__CPROVER_constant_infinity_uint];
void* VERIF_new(uint64_t n); void VERIF_delete(void* p);
uint64_t wq, wa, wtid, wc, wf; _Bool has_w, w_leaf, fin_wf;
_Bool r_wc, r_wf, pend_wc, rt_w, sm_w, w_erased, q_is_wc, ssf_w, iat_w, g_shortcut, g_find_hit;
_Bool seen_q, cur_q, seen_a, cur_a, seen_t, cur_t, seen_c, cur_c, seen_i, seen_f, cur_f, seen_k;
uint64_t g_rem, g_cq, g_sm_key, g_q, g_back, g_cur_f, cell_child, cell_back, cell_f; uint8_t g_ret_kind;
E_CMAP cell_cm; E_CLU cell_clu; SPV cell_tup; E_SM cell_sm; TIP cell_tip; TI cell_tiw, cell_tio; void* g_cur_kept;
AUT *g_this, *g_ret; void *g_local, *m_this;
#define TOKT_W ((void*)(uintptr_t)4096)   /* the tuple of the witness rule */
#define TOKT_O ((void*)(uintptr_t)8192)   /* any other tuple */
#define BEQ(a, b) (!(a) == !(b))      /* equality of truth values: a havocked _Bool need not be 0 / 1 */
#define CONS    (wc != wf || BEQ(r_wc, r_wf))
#define DONE_W  (w_leaf ? rt_w : sm_w)
#define R_G     r_wc, r_wf, pend_wc
#define G_CHILD seen_c, cur_c, cell_child, cell_sm, g_sm_key, sm_w, g_rem
#define G_TUP   G_CHILD, seen_t, cur_t, cell_tup, rt_w, R_G, cell_tip
#define G_SYMS  G_TUP, seen_a, cur_a, cell_clu
#define G_OWN   G_SYMS, seen_q, cur_q, cell_cm, g_cq
#define G_INFOS R_G, rt_w, w_erased, seen_i, cell_tip, cell_tio, g_rem
#define G_WORK  G_INFOS, q_is_wc, g_q, g_back, cell_back, cell_sm, g_sm_key
#define G_FIN   seen_f, cur_f, cell_f, g_cur_f, g_find_hit, ssf_w
#define G_KEPT  seen_k, cell_tip, cell_tio, g_cur_kept, iat_w
#define CONTRACT_RUSL \
  __CPROVER_requires(v_this == g_this && v_agg_result == g_ret && g_ret_kind == 0 && g_rem == 0 && !rt_w && !sm_w && !w_erased && !ssf_w && !iat_w && !g_shortcut) \
  __CPROVER_requires(SP_PTR(&cell_tiw.f0) == TOKT_W && cell_tiw.f1 == wa && cell_tiw.f2 == wq) \
  __CPROVER_assigns(G_OWN, G_WORK, G_FIN, G_KEPT, g_local, g_shortcut, g_ret_kind) \
  __CPROVER_ensures(g_ret_kind == 1) \
  __CPROVER_ensures((has_w && w_leaf) ==> rt_w) \
  __CPROVER_ensures((has_w && !w_leaf) ==> sm_w) \
  __CPROVER_ensures((rt_w && !w_leaf) ==> (w_erased && r_wc)) \
  __CPROVER_ensures(g_shortcut ? g_rem == 0 : (g_rem != 0 && BEQ(rt_w, iat_w))) \
  __CPROVER_ensures(BEQ(ssf_w, fin_wf && r_wf)) \
  __CPROVER_ensures(!pend_wc)
#define P1 __CPROVER_loop_invariant(CONS && v_remaining_slot == g_rem && BEQ(r_wc, pend_wc) && (rt_w ==> w_leaf) && (sm_w ==> !w_leaf) && !w_erased)
#define LOOPASG_RUSL__L_OWNERS , G_OWN
#define LOOP_RUSL__L_OWNERS P1 \
  __CPROVER_loop_invariant(END_RUSL__L_OWNERS.f0.f0 == 0) \
  __CPROVER_loop_invariant((has_w && BEGIN_RUSL__L_OWNERS.f0.f0 == 0) ==> seen_q) \
  __CPROVER_loop_invariant((has_w && seen_q) ==> DONE_W)
#define LOOPASG_RUSL__L_SYMS , G_SYMS
#define LOOP_RUSL__L_SYMS P1 \
  __CPROVER_loop_invariant(END_RUSL__L_SYMS.f0.f0 == 0) \
  __CPROVER_loop_invariant((has_w && cur_q && BEGIN_RUSL__L_SYMS.f0.f0 == 0) ==> seen_a) \
  __CPROVER_loop_invariant((has_w && cur_q && seen_a) ==> DONE_W) \
  __CPROVER_loop_invariant((has_w && !cur_q && seen_q) ==> DONE_W)
#define LOOPASG_RUSL__L_TUPLES , G_TUP
#define LOOP_RUSL__L_TUPLES P1 \
  __CPROVER_loop_invariant(END_RUSL__L_TUPLES.f0 == 0) \
  __CPROVER_loop_invariant((has_w && cur_q && cur_a && BEGIN_RUSL__L_TUPLES.f0 == 0) ==> seen_t) \
  __CPROVER_loop_invariant((has_w && cur_q && cur_a && seen_t) ==> DONE_W) \
  __CPROVER_loop_invariant((has_w && cur_q && !cur_a && seen_a) ==> DONE_W) \
  __CPROVER_loop_invariant((has_w && !cur_q && seen_q) ==> DONE_W)
#define LOOPASG_RUSL__L_CHILDSET , G_CHILD
#define LOOP_RUSL__L_CHILDSET P1 \
  __CPROVER_loop_invariant(END_RUSL__L_CHILDSET.f0 == 0 && ((has_w && cur_q && cur_a && cur_t) ==> !w_leaf)) \
  __CPROVER_loop_invariant((has_w && cur_q && cur_a && cur_t && BEGIN_RUSL__L_CHILDSET.f0 == 0) ==> seen_c) \
  __CPROVER_loop_invariant((has_w && cur_q && cur_a && cur_t && seen_c) ==> sm_w) \
  __CPROVER_loop_invariant((has_w && cur_q && cur_a && !cur_t && seen_t) ==> DONE_W) \
  __CPROVER_loop_invariant((has_w && cur_q && !cur_a && seen_a) ==> DONE_W) \
  __CPROVER_loop_invariant((has_w && !cur_q && seen_q) ==> DONE_W)
#define P2 __CPROVER_loop_invariant(CONS && v_remaining_slot == g_rem && (has_w ==> DONE_W) && (pend_wc ==> r_wc) && (w_erased ==> r_wc) && ((rt_w && !w_leaf) ==> w_erased))
#define LOOPASG_RUSL__L_WORK , G_WORK
#define LOOP_RUSL__L_WORK P2 \
  __CPROVER_loop_invariant((r_wc && !pend_wc && sm_w) ==> w_erased)
#define LOOPASG_RUSL__L_INFOS , G_INFOS
#define LOOP_RUSL__L_INFOS P2 \
  __CPROVER_loop_invariant(END_RUSL__L_INFOS.f0 == 0 && T_PROD[g_q] != 0 && cell_sm.f0 == g_q && BEQ(q_is_wc, g_q == wc) && (q_is_wc ==> (r_wc && !pend_wc))) \
  __CPROVER_loop_invariant((!q_is_wc && r_wc && !pend_wc && sm_w) ==> w_erased) \
  __CPROVER_loop_invariant((q_is_wc && sm_w && BEGIN_RUSL__L_INFOS.f0 == 0) ==> seen_i) \
  __CPROVER_loop_invariant((q_is_wc && sm_w && seen_i) ==> w_erased)
#define LOOPASG_RUSL__L_FINALS , G_FIN
#define LOOP_RUSL__L_FINALS \
  __CPROVER_loop_invariant(END_RUSL__L_FINALS.f0.f0 == 0 && g_local == (void*)&v_result_slot) \
  __CPROVER_loop_invariant((fin_wf && BEGIN_RUSL__L_FINALS.f0.f0 == 0) ==> seen_f) \
  __CPROVER_loop_invariant((fin_wf && seen_f && r_wf) ==> ssf_w) \
  __CPROVER_loop_invariant(ssf_w ==> (fin_wf && r_wf))
#define LOOPASG_RUSL__L_KEPT , G_KEPT
#define LOOP_RUSL__L_KEPT \
  __CPROVER_loop_invariant(END_RUSL__L_KEPT.f0 == 0 && g_local == (void*)&v_result_slot) \
  __CPROVER_loop_invariant((rt_w && BEGIN_RUSL__L_KEPT.f0 == 0) ==> seen_k) \
  __CPROVER_loop_invariant((rt_w && seen_k) ==> iat_w) \
  __CPROVER_loop_invariant(iat_w ==> rt_w)
