/* Unit lts_slist (DESIGN.md 5-C16, 11): the shared Remove lists.  A list is a chain of nodes {next_, subList_, refCount_}; a holder that got
   its pointer through copy() shares the node (refCount_ + 1) and must never see later appends of the other holder.
   append(list, v, allocator):  returns true IFF there was no list (a NEW pending Remove: the caller queues it);
       no list          ==>  list = a fresh node, next_ = null, v pushed into ITS sub-list
       node shared      ==>  list = a fresh node chained in front of the old one (next_ = old); v pushed into the FRESH node's sub-list; the old
                             node (next_, subList_, refCount_) is not written  (copy-on-write: the other holder's view is unchanged)
       node exclusive   ==>  list unchanged, v pushed into its sub-list
   copy():  refCount_ + 1, returns this.
   enqueueToRemove(block, label, state):  appends state to block->remove_[label] and queues (block, label) IFF append reported a new list. */
SL *g_old, *g_fresh, *g_self; SL* cell_list; void *g_sub_old, *g_sub_fresh, *g_alloc; uint64_t g_v, g_rc0; SL* g_next0;
uint64_t g_pushes; void* g_push_sub; uint64_t g_push_v, g_allocs;
ENG* g_this; BLOCK* g_blk; uint64_t g_label, g_state, g_L; void* cell_rm; _Bool g_app_ret, g_queued; uint64_t g_app_calls;
#define CONTRACT_APPEND \
  __CPROVER_requires(v_list == &cell_list && cell_list == g_old && *v_v == g_v && v_allocator == g_alloc && g_pushes == 0 && g_allocs == 0) \
  __CPROVER_requires(g_old != 0 ==> (g_old->f2 == g_rc0 && g_rc0 >= 1 && g_old->f1 == g_sub_old && g_old->f0 == g_next0)) \
  __CPROVER_assigns(cell_list, g_fresh->f0, g_pushes, g_push_sub, g_push_v, g_allocs) \
  __CPROVER_ensures(__CPROVER_return_value == (g_old == 0)) \
  __CPROVER_ensures(g_pushes == 1 && g_push_v == g_v) \
  __CPROVER_ensures(g_old == 0 ==> (cell_list == g_fresh && g_fresh->f0 == 0 && g_push_sub == g_sub_fresh && g_allocs == 1)) \
  __CPROVER_ensures((g_old != 0 && g_rc0 > 1) ==> (cell_list == g_fresh && g_fresh->f0 == g_old && g_push_sub == g_sub_fresh && g_allocs == 1)) \
  __CPROVER_ensures((g_old != 0 && g_rc0 == 1) ==> (cell_list == g_old && g_push_sub == g_sub_old && g_allocs == 0)) \
  __CPROVER_ensures(g_old != 0 ==> (g_old->f2 == g_rc0 && g_old->f1 == g_sub_old && g_old->f0 == g_next0))
#define CONTRACT_COPY \
  __CPROVER_requires(v_this == g_self && g_self->f2 == g_rc0 && g_rc0 < UINT64_MAX) \
  __CPROVER_assigns(g_self->f2) \
  __CPROVER_ensures(__CPROVER_return_value == g_self && g_self->f2 == g_rc0 + 1)
#define CONTRACT_ENQ \
  __CPROVER_requires(v_this == g_this && v_block == g_blk && v_label == g_label && v_state == g_state && g_label < g_L && g_app_calls == 0 && !g_queued) \
  __CPROVER_assigns(g_app_calls, g_queued) \
  __CPROVER_ensures(g_app_calls == 1 && (!g_queued == !g_app_ret))
/* unsafeRelease(deleter) -- a holder gives up its Remove list: the exclusively owned prefix of the chain (refCount_ == 1) is handed to the deleter,
   node by node, each once; the first SHARED node only loses one reference and is neither handed to the deleter nor changed otherwise (the other
   holder keeps the rest of the chain).  Witness node nX of the prefix (present iff has_x), first shared node nS (present iff has_s). */
SL *nH, *nG0, *nX, *nG1, *nS; _Bool has_x, has_s; uint64_t del_h, del_x, g_hrc0, g_src0; void* g_del;
#define UE1 (has_s ? nS : (SL*)0)
#define UE0 (has_x ? nX : UE1)
#define USHAPE (nG0->f2 == 1 && nG1->f2 == 1 && nX->f2 == 1 && nS->f2 > 1 \
   && (nH->f0 == nG0 || nH->f0 == UE0) && (nG0->f0 == nG0 || nG0->f0 == UE0) && (nX->f0 == nG1 || nX->f0 == UE1) && (nG1->f0 == nG1 || nG1->f0 == UE1))
#define CONTRACT_UREL \
  __CPROVER_requires(v_this == nH && v_deleter == g_del && USHAPE && nH->f2 == g_hrc0 && g_hrc0 >= 1 && nS->f2 == g_src0 && del_h == 0 && del_x == 0) \
  __CPROVER_assigns(del_h, del_x, nH->f2, nS->f2, nG0->f0, nG1->f0) \
  __CPROVER_ensures(g_hrc0 > 1 ==> (del_h == 0 && del_x == 0 && nH->f2 == g_hrc0 - 1 && nS->f2 == g_src0)) \
  __CPROVER_ensures(g_hrc0 == 1 ==> (del_h == 1 && (has_x ==> del_x == 1) && (!has_x ==> del_x == 0) && nS->f2 == (has_s ? g_src0 - 1 : g_src0) && nH->f2 == 1))
#define LOOPASG_UREL__L_CHAIN , del_h, del_x, nG0->f0, nG1->f0
#define LOOP_UREL__L_CHAIN \
  __CPROVER_loop_invariant(USHAPE && nH->f2 == g_hrc0 && nS->f2 == g_src0 && del_h <= 1 && del_x <= 1 && (del_x == 1 ==> has_x)) \
  __CPROVER_loop_invariant(v_elem_slot == nH || (g_hrc0 == 1 && (v_elem_slot == nG0 || v_elem_slot == UE0 || (has_x && (v_elem_slot == nG1 || v_elem_slot == UE1))))) \
  __CPROVER_loop_invariant((v_elem_slot == nH) == (del_h == 0)) \
  __CPROVER_loop_invariant((has_x && v_elem_slot != nH && v_elem_slot != nG0 && v_elem_slot != nX) == (del_x == 1))
