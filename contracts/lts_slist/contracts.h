/* Unit lts_slist (DESIGN.md 5-C16, 11): the shared Remove lists.  A list is a chain of nodes {next_, subList_, refCount_}; a holder that got
   its pointer through copy() shares the node (refCount_ + 1) and must never see later appends of the other holder.
   append(list, v, allocator):  returns true IFF there was no list (a NEW pending Remove: the caller queues it);
       no list          ==>  list = a fresh node, next_ = null, v pushed into ITS sub-list
       node shared      ==>  list = a fresh node chained in front of the old one (next_ = old); v pushed into the FRESH node's sub-list; the old
                             node (next_, subList_, refCount_) is not written  (copy-on-write: the other holder's view is unchanged)
       node exclusive   ==>  list unchanged, v pushed into its sub-list
   copy():  refCount_ + 1, returns this.
   enqueueToRemove(block, label, state):  appends state to block->remove_[label] and queues (block, label) IFF append reported a new list. */
SL *g_old, *g_fresh, *g_self; SL* cell_list; void *g_sub_old, *g_sub_fresh, *g_alloc; uint64_t g_v, g_rc0; SL* g_next0;
uint64_t g_pushes; void* g_push_sub; uint64_t g_push_v, g_allocs;
ENG* g_this; BLOCK* g_blk; uint64_t g_label, g_state, g_L; void* cell_rm; _Bool g_app_ret, g_queued; uint64_t g_app_calls;
#define CONTRACT_APPEND \
  __CPROVER_requires(v_list == &cell_list && cell_list == g_old && *v_v == g_v && v_allocator == g_alloc && g_pushes == 0 && g_allocs == 0) \
  __CPROVER_requires(g_old != 0 ==> (g_old->f2 == g_rc0 && g_rc0 >= 1 && g_old->f1 == g_sub_old && g_old->f0 == g_next0)) \
  __CPROVER_assigns(cell_list, g_fresh->f0, g_pushes, g_push_sub, g_push_v, g_allocs) \
  __CPROVER_ensures(__CPROVER_return_value == (g_old == 0)) \
  __CPROVER_ensures(g_pushes == 1 && g_push_v == g_v) \
  __CPROVER_ensures(g_old == 0 ==> (cell_list == g_fresh && g_fresh->f0 == 0 && g_push_sub == g_sub_fresh && g_allocs == 1)) \
  __CPROVER_ensures((g_old != 0 && g_rc0 > 1) ==> (cell_list == g_fresh && g_fresh->f0 == g_old && g_push_sub == g_sub_fresh && g_allocs == 1)) \
  __CPROVER_ensures((g_old != 0 && g_rc0 == 1) ==> (cell_list == g_old && g_push_sub == g_sub_old && g_allocs == 0)) \
  __CPROVER_ensures(g_old != 0 ==> (g_old->f2 == g_rc0 && g_old->f1 == g_sub_old && g_old->f0 == g_next0))
#define CONTRACT_COPY \
  __CPROVER_requires(v_this == g_self && g_self->f2 == g_rc0 && g_rc0 < UINT64_MAX) \
  __CPROVER_assigns(g_self->f2) \
  __CPROVER_ensures(__CPROVER_return_value == g_self && g_self->f2 == g_rc0 + 1)
#define CONTRACT_ENQ \
  __CPROVER_requires(v_this == g_this && v_block == g_blk && v_label == g_label && v_state == g_state && g_label < g_L && g_app_calls == 0 && !g_queued) \
  __CPROVER_assigns(g_app_calls, g_queued) \
  __CPROVER_ensures(g_app_calls == 1 && (!g_queued == !g_app_ret))
