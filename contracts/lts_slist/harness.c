#define CANARY(n) __CPROVER_assert(0, "canary: " n " reaches the end (must FAIL)")
_Bool nondet_bool(void);
void* ALLOC(void* a) { __CPROVER_assert(a == g_alloc && g_allocs == 0, "at most one node is taken from the allocator"); g_allocs++; return g_fresh; }
void V_PUSH(void* sub, uint64_t* x) { g_pushes++; g_push_sub = sub; g_push_v = *x; }
#ifdef STUB_APPEND
_Bool APPEND(void* plist, uint64_t* v, void* alloc) { __CPROVER_assert(plist == (void*)&cell_rm && *v == g_state && alloc == (void*)&g_this->f3 && g_app_calls == 0, "C16: the state is appended to remove_[label] of the block, with the engine's Remove allocator"); g_app_calls++; return g_app_ret; }
#endif
RM_RET RM_AT(void* v, uint64_t a) { __CPROVER_assert(v == (void*)&g_blk->f3 && a == g_label && a < g_L, "C20: remove_ of the block, indexed by the label, below the number of labels"); return (RM_RET)&cell_rm; }
MKPAIR_RET MKPAIR(BLOCK** pb, uint64_t* pa) { MKPAIR_RET r; r.f0 = *pb; r.f1 = *pa; return r; }
void Q_PUSH(void* q, void* pr_) { QPAIR* pr = (QPAIR*)pr_; __CPROVER_assert(q == (void*)&g_this->f8 && pr->f0 == g_blk && pr->f1 == g_label && g_app_calls == 1 && g_app_ret && !g_queued, "C16: (block, label) is queued once, exactly when a NEW Remove list was started for it"); g_queued = 1; }
void h_APPEND(void) { g_fresh = malloc(sizeof *g_fresh); SL* o = malloc(sizeof *o); g_alloc = malloc(1); g_sub_fresh = malloc(1); g_sub_old = malloc(1); uint64_t* pv = malloc(8);
  __CPROVER_assume(g_fresh && o && g_alloc && g_sub_fresh && g_sub_old && pv);
  g_old = nondet_bool() ? o : (SL*)0; cell_list = g_old; g_fresh->f1 = g_sub_fresh; g_fresh->f2 = 1;          /* allocator contract: refCount_ == 1, own (cleared) sub-list */
  if (g_old) { g_old->f1 = g_sub_old; g_rc0 = g_old->f2; __CPROVER_assume(g_rc0 >= 1); g_next0 = g_old->f0; }
  g_v = *pv; g_pushes = 0; g_allocs = 0;
  _Bool r = APPEND(&cell_list, pv, g_alloc); CANARY("h_APPEND"); }
void h_COPY(void) { g_self = malloc(sizeof *g_self); __CPROVER_assume(g_self); g_rc0 = g_self->f2; __CPROVER_assume(g_rc0 < UINT64_MAX); SL* r = COPY(g_self); CANARY("h_COPY"); }
void h_ENQ(void) { g_this = malloc(sizeof *g_this); g_blk = malloc(sizeof *g_blk); __CPROVER_assume(g_this && g_blk && g_label < g_L); g_app_calls = 0; g_queued = 0;
  ENQ(g_this, g_blk, g_label, g_state); CANARY("h_ENQ"); }
void DELETER(void* clo, void* node) { __CPROVER_assert(clo == g_del && node != 0 && ((SL*)node)->f2 == 1 && node != (void*)nS, "C16: only an exclusively owned node (refCount_ == 1) is handed to the deleter, never the first shared one");
  if (node == (void*)nH) del_h++; if (node == (void*)nX) del_x++; }
void h_UREL(void) { nH = malloc(sizeof *nH); nG0 = malloc(sizeof *nG0); nX = malloc(sizeof *nX); nG1 = malloc(sizeof *nG1); nS = malloc(sizeof *nS); g_del = malloc(8);
  __CPROVER_assume(nH && nG0 && nX && nG1 && nS && g_del && USHAPE); g_hrc0 = nH->f2; g_src0 = nS->f2; __CPROVER_assume(g_hrc0 >= 1); del_h = 0; del_x = 0;
  UREL(nH, g_del); CANARY("h_UREL"); }
