/* Unit ta_reindex (DESIGN.md 5-C14): ExplicitTreeAutCore::ReindexStates(dst, index, addFinalStates), instantiated with an abstract
   index functor (inst/expl_tree.cc: VerifIndex::at is an uninterpreted function IDX).  "Exactly the image":
   (R1) PROVENANCE   every tuple inserted into the destination is the image of the source tuple under the cursor (same length, and for
                     an arbitrary witness position wk the wk-th component is IDX of the source's wk-th component), and it is inserted
                     into the tuple set obtained for (IDX(parent under the cursor), symbol under the cursor);
   (R2) COMPLETENESS the image of an arbitrary witness rule (wq, wa, wtid) of the source has been inserted when the loops finish;
   (R3) FINALS       SetStateFinal is called with IDX(final under the cursor) only; for an arbitrary witness final state wf it has been
                     called; with addFinalStates == false it is never called;
   (R4) COPY-ON-WRITE every write goes through dst.uniqueClusterMap() -> uniqueCluster(..) -> uniqueTuplePtrSet(..) (contracts of these
                     three: unit ta_cow); the source is only traversed (frame). */
#include "common/sp_ghost.h"
uint64_t wq, wa, wtid, wk; _Bool has_w;           /* witness rule of the source, witness child position */
uint64_t wf; _Bool fin_wf;                        /* witness final state of the source */
AUT *g_this, *g_dst; void *m_src, *m_dst;
_Bool seen_f, cur_f, g_ssf_called, fin_done; uint64_t g_cur_f, g_exp_f, cell_f;
_Bool seen_q, cur_q, seen_a, cur_a, seen_t, cur_t; uint64_t g_cur_q, g_exp_parent, g_cur_a, g_cur_tid;
uint64_t g_pos, g_len, g_exp_w, cell_child;       /* traversal of the children of the tuple under the cursor */
uint64_t nt_len, nt_w;                            /* the image tuple being built: length, component wk */
_Bool g_ucm, g_uc_valid, g_uts_valid, g_tl_valid, ins_w; uint64_t g_uc_state, g_uts_state, g_uts_sym, g_tl_len, g_tl_w;
E_CMAP cell_cm; E_CLU cell_clu; SPV cell_tup; SPC cell_spc, cell_spc2; SPTS cell_spts;
void* VERIF_new(uint64_t n); void VERIF_delete(void* p); uint8_t g_newcell[256]; void* g_fresh_cluster; uint64_t g_idx_state;
#define G_FIN  seen_f, cur_f, g_ssf_called, fin_done, g_cur_f, g_exp_f, cell_f
#define G_L4   g_pos, nt_len, nt_w, cell_child
#define G_L3   G_L4, seen_t, cur_t, g_cur_tid, g_len, g_exp_w, cell_tup, g_tl_valid, g_tl_len, g_tl_w, ins_w
#define G_L2   G_L3, seen_a, cur_a, g_cur_a, cell_clu, g_uts_valid, g_uts_state, g_uts_sym, cell_spts
#define G_L1   G_L2, seen_q, cur_q, g_cur_q, g_exp_parent, cell_cm, g_uc_valid, g_uc_state, cell_spc, cell_spc2, g_fresh_cluster, g_idx_state, __CPROVER_object_whole(g_newcell)
#define CONTRACT_RIS \
  __CPROVER_requires(v_this == g_this && v_dst == g_dst && !ins_w && !fin_done && !g_ssf_called && !g_ucm && !g_uc_valid && !g_uts_valid && !g_tl_valid) \
  __CPROVER_assigns(G_FIN, G_L1, g_ucm) \
  __CPROVER_ensures(has_w ==> ins_w) \
  __CPROVER_ensures((v_addFinalStates && fin_wf) ==> fin_done) \
  __CPROVER_ensures(!v_addFinalStates ==> !g_ssf_called) \
  __CPROVER_ensures(g_ucm)
#define LOOPASG_RIS__L_FINALS , G_FIN
#define LOOP_RIS__L_FINALS \
  __CPROVER_loop_invariant(END_RIS__L_FINALS.f0.f0 == 0) \
  __CPROVER_loop_invariant((fin_wf && BEGIN_RIS__L_FINALS.f0.f0 == 0) ==> seen_f) \
  __CPROVER_loop_invariant((fin_wf && seen_f) ==> fin_done)
#define LOOPASG_RIS__L_OWNERS , G_L1
#define LOOP_RIS__L_OWNERS \
  __CPROVER_loop_invariant(END_RIS__L_OWNERS.f0.f0 == 0 && g_ucm) \
  __CPROVER_loop_invariant((has_w && BEGIN_RIS__L_OWNERS.f0.f0 == 0) ==> seen_q) \
  __CPROVER_loop_invariant((has_w && seen_q) ==> ins_w)
#define LOOPASG_RIS__L_SYMS , G_L2
#define LOOP_RIS__L_SYMS \
  __CPROVER_loop_invariant(END_RIS__L_SYMS.f0.f0 == 0) \
  __CPROVER_loop_invariant((has_w && cur_q && BEGIN_RIS__L_SYMS.f0.f0 == 0) ==> seen_a) \
  __CPROVER_loop_invariant((has_w && cur_q && seen_a) ==> ins_w) \
  __CPROVER_loop_invariant((has_w && !cur_q && seen_q) ==> ins_w)
#define LOOPASG_RIS__L_TUPLES , G_L3
#define LOOP_RIS__L_TUPLES \
  __CPROVER_loop_invariant(END_RIS__L_TUPLES.f0 == 0) \
  __CPROVER_loop_invariant((has_w && cur_q && cur_a && BEGIN_RIS__L_TUPLES.f0 == 0) ==> seen_t) \
  __CPROVER_loop_invariant((has_w && cur_q && cur_a && seen_t) ==> ins_w) \
  __CPROVER_loop_invariant((has_w && cur_q && !cur_a && seen_a) ==> ins_w) \
  __CPROVER_loop_invariant((has_w && !cur_q && seen_q) ==> ins_w)
#define LOOPASG_RIS__L_CHILDREN , G_L4
#define LOOP_RIS__L_CHILDREN \
  __CPROVER_loop_invariant(END_RIS__L_CHILDREN.f0 == 0 && g_pos <= g_len && nt_len == g_pos) \
  __CPROVER_loop_invariant((BEGIN_RIS__L_CHILDREN.f0 == 0) == (g_pos == g_len)) \
  __CPROVER_loop_invariant(wk < g_pos ==> nt_w == g_exp_w)
