#define CANARY(n) __CPROVER_assert(0, "canary: " n " reaches the end (must FAIL)")
#define TOK ((void*)(uintptr_t)8)
#define MAYBE (nondet_bool() ? TOK : (void*)0)
#define TOKC ((void*)(uintptr_t)16)    /* the destination cluster handed out by uniqueCluster */
#define TOKS ((void*)(uintptr_t)24)    /* the destination tuple set handed out by uniqueTuplePtrSet */
#define TOKT ((void*)(uintptr_t)32)    /* the tuple handed out by tupleLookup */
_Bool nondet_bool(void); uint64_t nondet_u64(void);
uint64_t __CPROVER_uninterpreted_IDX(uint64_t s);                 /* the index functor */
uint64_t __CPROVER_uninterpreted_LEN(uint64_t tid);               /* length of a source tuple */
uint64_t __CPROVER_uninterpreted_CHILD(uint64_t tid, uint64_t k); /* its k-th component */
#define IDX(s) __CPROVER_uninterpreted_IDX(s)
uint64_t IDX_AT(void* ix, uint64_t* s) { return IDX(*s); }
/* ---- final states of the source: witness traversal ---- */
void* FS_BEGIN(void* s) { __CPROVER_assert(s == (void*)&g_this->f1, "traversal of the source's final states"); seen_f = 0; return fin_wf ? TOK : MAYBE; }
void* FS_END(void* s) { return (void*)0; }
uint64_t* FSI_DEREF(void* it_) { FSI* it = (FSI*)it_; __CPROVER_assert(it->f0.f0 != 0, "no dereference of an end iterator"); cur_f = fin_wf && nondet_bool() && !seen_f; if (cur_f) seen_f = 1;
  cell_f = nondet_u64(); if (cur_f) cell_f = wf; else __CPROVER_assume(!fin_wf || cell_f != wf); g_cur_f = cell_f; g_exp_f = IDX(cell_f); return &cell_f; }
void* FSI_INC(void* it_) { FSI* it = (FSI*)it_; it->f0.f0 = MAYBE; __CPROVER_assume(it->f0.f0 != 0 || !fin_wf || seen_f); return it; }
void SSF(void* a, uint64_t* st) { __CPROVER_assert(a == (void*)g_dst, "final states are set in the destination"); __CPROVER_assert(*st == g_exp_f, "C14: the state made final is the image of the final state under the cursor");
  g_ssf_called = 1; if (cur_f) fin_done = 1; }
/* ---- the destination's copy-on-write chain ---- */
void* UCM(void* a) { __CPROVER_assert(a == (void*)g_dst, "uniqueClusterMap of the destination"); g_ucm = 1; return &g_dst->f2; }
void SPM_COPY(void* d, void* s) { *(SPM*)d = *(SPM*)s; } void SPM_DTOR(void* s) { }
void* UC(void* m, uint64_t* st) { __CPROVER_assert(g_ucm && m == m_dst, "C11/C14: uniqueCluster on the map that dst.uniqueClusterMap() made exclusive"); g_uc_state = *st; g_uc_valid = 1; SP_PTR(&cell_spc) = TOKC; return &cell_spc; }
void SPC_COPY(void* d, void* s) { *(SPC*)d = *(SPC*)s; } void SPC_DTOR(void* s) { g_uc_valid = 0; }
/* other ways to a cluster of the destination map (not used by the code today): operator[] hands out a cluster that is NOT known to be exclusively
   owned -- it may be shared with another automaton -- unless it is the one the function has just allocated itself */
#define TOKC2 ((void*)(uintptr_t)40)
void* VERIF_new(uint64_t n) { __CPROVER_assert(n <= sizeof g_newcell, "operator new: the static cell is large enough"); return g_newcell; } void VERIF_delete(void* p) { }
static void* cmap_index(void* m, uint64_t* k) { __CPROVER_assert(g_ucm && m == m_dst, "C11/C14: operator[] on the map that dst.uniqueClusterMap() made exclusive"); g_idx_state = *k; SP_PTR(&cell_spc2) = nondet_bool() ? TOKC2 : (void*)0; return &cell_spc2; }
void* CMAP_INDEX_RV(void* m, uint64_t* k) { return cmap_index(m, k); } void* CMAP_INDEX(void* m, uint64_t* k) { return cmap_index(m, k); }
_Bool SPC_BOOL(void* s) { return SP_PTR((SPC*)s) != 0; }
void CLU_BASE_CTOR(void* c) { }
void SPC_RAW(void* s, void* raw) { SP_PTR((SPC*)s) = raw; g_fresh_cluster = raw; }
void* SPC_MOVEASG(void* d, void* s) { SP_PTR((SPC*)d) = SP_PTR((SPC*)s); SP_PTR((SPC*)s) = 0; return d; }
void* UTS(void* c, uint64_t* sym) { __CPROVER_assert((c == TOKC && g_uc_valid) || (c != 0 && c == g_fresh_cluster), "C11/C14: uniqueTuplePtrSet on an exclusively owned cluster (handed out by uniqueCluster, or freshly allocated)"); g_uts_state = (c == TOKC) ? g_uc_state : g_idx_state; g_uts_sym = *sym; g_uts_valid = 1; SP_PTR(&cell_spts) = TOKS; return &cell_spts; }
void SPTS_COPY(void* d, void* s) { *(SPTS*)d = *(SPTS*)s; } void SPTS_DTOR(void* s) { g_uts_valid = 0; }
/* ---- the rules of the source: witness traversal of owners / symbols / tuples, positional traversal of the children ---- */
void* CMAP_BEGIN(void* m) { __CPROVER_assert(m == m_src, "traversal of the source's cluster map"); seen_q = 0; return has_w ? TOK : MAYBE; }
void* CMAP_END(void* m) { return (void*)0; }
void* CMAP_DEREF(void* it_) { CMI* it = (CMI*)it_; __CPROVER_assert(it->f0.f0 != 0, "no dereference of an end iterator"); cur_q = has_w && nondet_bool() && !seen_q; if (cur_q) seen_q = 1;
  uint64_t k = nondet_u64(); if (cur_q) k = wq; else __CPROVER_assume(!has_w || k != wq); g_cur_q = k; g_exp_parent = IDX(k); cell_cm.f0 = k; SP_PTR(&cell_cm.f1) = TOK; return &cell_cm; }
void* CMAP_INC(void* it_) { CMI* it = (CMI*)it_; it->f0.f0 = MAYBE; __CPROVER_assume(it->f0.f0 != 0 || !has_w || seen_q); return it; }
void* CLU_BEGIN(void* c) { __CPROVER_assert(c == TOK, "traversal of the source cluster under the cursor"); seen_a = 0; return (has_w && cur_q) ? TOK : MAYBE; }
void* CLU_END(void* c) { return (void*)0; }
void* CLU_DEREF(void* it_) { CLI* it = (CLI*)it_; __CPROVER_assert(it->f0.f0 != 0, "no dereference of an end iterator"); cur_a = has_w && cur_q && nondet_bool() && !seen_a; if (cur_a) seen_a = 1;
  uint64_t k = nondet_u64(); if (cur_a) k = wa; else __CPROVER_assume(!(has_w && cur_q) || k != wa); g_cur_a = k; cell_clu.f0 = k; SP_PTR(&cell_clu.f1) = TOK; return &cell_clu; }
void* CLU_INC(void* it_) { CLI* it = (CLI*)it_; it->f0.f0 = MAYBE; __CPROVER_assume(it->f0.f0 != 0 || !(has_w && cur_q) || seen_a); return it; }
void* TSET_BEGIN(void* t) { __CPROVER_assert(t == TOK, "traversal of the source tuple set under the cursor"); seen_t = 0; return (has_w && cur_q && cur_a) ? TOK : MAYBE; }
void* TSET_END(void* t) { return (void*)0; }
void* RBI_DEREF(void* it_) { RBI* it = (RBI*)it_; __CPROVER_assert(it->f0 != 0, "no dereference of an end iterator"); cur_t = has_w && cur_q && cur_a && nondet_bool() && !seen_t; if (cur_t) seen_t = 1;
  uint64_t k = nondet_u64(); if (cur_t) k = wtid; else __CPROVER_assume(!(has_w && cur_q && cur_a) || k != wtid); g_cur_tid = k; g_len = __CPROVER_uninterpreted_LEN(k);
  g_exp_w = IDX(__CPROVER_uninterpreted_CHILD(k, wk)); SP_PTR(&cell_tup) = TOK; return &cell_tup; }
void* RBI_INC(void* it_) { RBI* it = (RBI*)it_; it->f0 = MAYBE; __CPROVER_assume(it->f0 != 0 || !(has_w && cur_q && cur_a) || seen_t); return it; }
void VEC_CTOR(void* v) { nt_len = 0; } void VEC_DTOR(void* v) { }
uint64_t* TUP_BEGIN(void* v) { __CPROVER_assert(v == TOK, "traversal of the source tuple under the cursor"); g_pos = 0; return (uint64_t*)(g_len > 0 ? TOK : (void*)0); }
uint64_t* TUP_END(void* v) { return (uint64_t*)0; }
uint64_t* NIT_DEREF(void* it_) { NIT* it = (NIT*)it_; __CPROVER_assert(it->f0 != 0, "no dereference of an end iterator"); cell_child = __CPROVER_uninterpreted_CHILD(g_cur_tid, g_pos); return &cell_child; }
void* NIT_INC(void* it_) { NIT* it = (NIT*)it_; g_pos++; it->f0 = (uint64_t*)(g_pos < g_len ? TOK : (void*)0); return it; }
void VEC_PUSH_RV(void* v, uint64_t* x) { if (nt_len == wk) nt_w = *x; nt_len++; }
void VEC_PUSH(void* v, uint64_t* x) { if (nt_len == wk) nt_w = *x; nt_len++; }           /* the const& overload, should the code use it */
uint64_t VEC_SIZE(void* v) { return v == TOK ? g_len : nt_len; }
/* ---- look-up of the image tuple and its insertion ---- */
void TLOOKUP(void* ret, void* a, void* vec) { __CPROVER_assert(a == (void*)g_dst, "the image tuple is looked up in the destination's tuple cache"); g_tl_len = nt_len; g_tl_w = nt_w; g_tl_valid = 1; SP_PTR((SPV*)ret) = TOKT; }
void SPT_DTOR(void* s) { }
TSET_INSRET TSET_INSERT(void* set, void* x) {
  __CPROVER_assert(set == TOKS && g_uts_valid, "C11/C14: insertion into the tuple set handed out by uniqueTuplePtrSet");
  __CPROVER_assert(g_uts_state == g_exp_parent && g_uts_sym == g_cur_a, "C14 provenance: the rule lands under the image of its parent and under its own symbol");
  __CPROVER_assert(SP_PTR((SPV*)x) == TOKT && g_tl_valid && g_tl_len == g_len && (wk >= g_len || g_tl_w == g_exp_w), "C14 provenance: the tuple inserted is the image of the source tuple under the cursor");
  if (cur_t) ins_w = 1; g_tl_valid = 0; TSET_INSRET r; r.f1 = nondet_bool(); return r; }
void h_RIS(void) { g_this = malloc(sizeof *g_this); g_dst = malloc(sizeof *g_dst); m_src = malloc(64); m_dst = malloc(64); __CPROVER_assume(g_this && g_dst && m_src && m_dst);
  SP_PTR(&g_this->f2) = m_src; SP_PTR(&g_dst->f2) = m_dst;
  g_fresh_cluster = 0; ins_w = 0; fin_done = 0; g_ssf_called = 0; g_ucm = 0; g_uc_valid = 0; g_uts_valid = 0; g_tl_valid = 0;
  void* ix = malloc(1); RIS(g_this, g_dst, ix, nondet_bool()); CANARY("h_RIS"); }
