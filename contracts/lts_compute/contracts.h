/* Unit lts_compute (DESIGN.md 5-C16, 11): the entry points of the simulation engine, as compositions.
   computeSimulation(partition, relation, outputSize):  outputSize == 0 ==> the empty relation, nothing is computed;  otherwise an engine is built on
       THIS system, init(partition, relation) -- the caller's partition and preorder --, run(), a fresh result, buildResult(result, outputSize) with the
       REQUESTED size ("the result restricted to the requested output size"), the result is moved out, the engine destroyed.
   computeSimulation(outputSize):  "with no partition given": ONE block holding every state 0 .. states_-1 (each exactly once, witness state w) and
       the full relation on that block (size 1, all true), then the three-argument overload on this system with the same output size.
   computeSimulation():  the one-argument overload with outputSize = states_.
   run():  as long as the queue is not empty its last pair is taken OFF the queue and processRemove is applied to exactly that pair. */
LTS* g_this; void *g_ret, *g_part, *g_rel; uint64_t g_out, g_S, g_step; void *g_eng, *g_res; _Bool g_ret_made;
uint64_t w; uint64_t pushed_w; void* g_lpart; _Bool g_lpart_made, g_lrel_made; void* g_lrel; uint64_t g_cs3_calls, g_cs1_calls;
ENG* g_engine; QPAIR cell_q; _Bool g_popped, g_have; uint64_t g_prem_calls;
#define CONTRACT_CS3 \
  __CPROVER_requires(v_agg_result == g_ret && v_this == g_this && v_partition == g_part && v_relation == g_rel && v_outputSize == g_out && g_step == 0 && !g_ret_made) \
  __CPROVER_assigns(g_step, g_eng, g_res, g_ret_made) \
  __CPROVER_ensures(g_ret_made && (g_out == 0 ==> g_step == 0) && (g_out != 0 ==> g_step == 7))
#define CONTRACT_CS1 \
  __CPROVER_requires(v_agg_result == g_ret && v_this == g_this && v_outputSize == g_out && g_this->f0 == g_S && pushed_w == 0 && !g_lpart_made && !g_lrel_made && g_cs3_calls == 0) \
  __CPROVER_assigns(pushed_w, g_lpart, g_lpart_made, g_lrel_made, g_lrel, g_cs3_calls) \
  __CPROVER_ensures(g_cs3_calls == 1 && pushed_w <= 1 && (w < g_S ==> pushed_w == 1) && (w >= g_S ==> pushed_w == 0))
#define LOOPASG_CS1__L_STATES , pushed_w
#define LOOP_CS1__L_STATES __CPROVER_loop_invariant(v_i_slot <= g_S && g_lpart_made && g_cs3_calls == 0 && !g_lrel_made && ((w < v_i_slot) == (pushed_w == 1)) && pushed_w <= 1)
#define CONTRACT_CS0 \
  __CPROVER_requires(v_agg_result == g_ret && v_this == g_this && g_this->f0 == g_S && g_cs1_calls == 0) \
  __CPROVER_assigns(g_cs1_calls) \
  __CPROVER_ensures(g_cs1_calls == 1)
#define CONTRACT_RUN \
  __CPROVER_requires(v_this == g_engine && !g_have && !g_popped) \
  __CPROVER_assigns(cell_q, g_popped, g_have, g_prem_calls, VERIF_dummy_) \
  __CPROVER_ensures(!g_have)
#define LOOPASG_RUN__L_QUEUE , cell_q, g_popped, g_have, g_prem_calls
#define LOOP_RUN__L_QUEUE __CPROVER_loop_invariant(!g_have && !g_popped)
