#define CANARY(n) __CPROVER_assert(0, "canary: " n " reaches the end (must FAIL)")
_Bool nondet_bool(void); uint64_t nondet_u64(void);
#define TOKP ((void*)(uintptr_t)16)
/* ---- computeSimulation(partition, relation, outputSize) ---- */
void BR_CTOR3(void* r, uint64_t n, _Bool dv, uint64_t rs) {
#if defined(HARNESS_h_CS3)
  if (g_out == 0) { __CPROVER_assert(r == g_ret && n == 0 && g_step == 0, "C16: output size 0 gives the empty relation"); g_ret_made = 1; }
  else { __CPROVER_assert(n == 0 && !dv && g_step == 3, "a fresh (empty) result, after run()"); g_res = r; g_step = 4; }
#else
  __CPROVER_assert(n == 1 && dv && g_lpart_made && !g_lrel_made, "C16: with no preorder given the single block is related to itself (relation of size 1, all true)"); g_lrel = r; g_lrel_made = 1;
#endif
}
void ENG_CTOR(void* e, void* lts) { __CPROVER_assert(g_out != 0 && lts == (void*)g_this && g_step == 0, "C16: the engine is built on THIS system"); g_eng = e; g_step = 1; }
void ENG_INIT(void* e, void* p, void* r) { __CPROVER_assert(e == g_eng && p == g_part && r == g_rel && g_step == 1, "C16: init gets the caller's partition and preorder"); g_step = 2; }
#ifdef STUB_RUN
void RUN(void* e) { __CPROVER_assert(e == g_eng && g_step == 2, "run() after init()"); g_step = 3; }
#endif
void BRES(void* e, void* r, uint64_t n) { __CPROVER_assert(e == g_eng && r == g_res && g_step == 4, "buildResult into the fresh result, after run()");
  __CPROVER_assert(n == g_out, "C16: the result is built for exactly the REQUESTED output size"); g_step = 5; }
void BR_MOVE(void* d, void* s) { __CPROVER_assert(d == g_ret && s == g_res && g_step == 5, "the result built is the relation returned"); g_ret_made = 1; g_step = 6; }
void BR_DTOR(void* r) { __CPROVER_assert(r != g_ret, "the relation returned is not destroyed"); }
void ENG_DTOR(void* e) { __CPROVER_assert(e == g_eng && g_step == 6, "the engine is destroyed after the result was taken"); g_step = 7; }
/* ---- computeSimulation(outputSize) ---- */
void ALVV_CTOR(void* a) { } void ALVV_DTOR(void* a) { } void VV_DTOR(void* v) { }
void VV_CTOR(void* v, uint64_t n, void* a) { __CPROVER_assert(n == 1, "C16: with no partition given there is ONE block"); g_lpart = v; g_lpart_made = 1; }
void* VV_AT(void* v, uint64_t i) { __CPROVER_assert(v == g_lpart && g_lpart_made && i == 0, "C20: the single block, index 0"); return TOKP; }
void V_PUSH(void* v, uint64_t* x) { __CPROVER_assert(v == TOKP && *x < g_S, "C16: only states of the system are put into the block"); if (*x == w) pushed_w++; }
#ifdef STUB_CS3
void CS3(void* ret, void* self, void* p, void* r, uint64_t n) { __CPROVER_assert(ret == g_ret && self == (void*)g_this && p == g_lpart && r == g_lrel && g_lrel_made && n == g_out && g_cs3_calls == 0,
   "C16: the general overload on this system with the one-block partition, the full relation and the same output size"); g_cs3_calls++; }
#endif
#ifdef STUB_CS1
void CS1(void* ret, void* self, uint64_t n) { __CPROVER_assert(ret == g_ret && self == (void*)g_this && n == g_S && g_cs1_calls == 0, "C16: without an output size the relation is reported for all states_ states"); g_cs1_calls++; }
#endif
/* ---- run() ---- */
_Bool Q_EMPTY(void* q) { __CPROVER_assert(q == (void*)&g_engine->f8 && !g_have, "queue_ of the engine; the pair taken before was processed"); return nondet_bool(); }
void* Q_BACK(void* q) { __CPROVER_assert(q == (void*)&g_engine->f8 && !g_have, "back() of a non-empty queue_"); cell_q.f0 = (void*)(uintptr_t)nondet_u64(); cell_q.f1 = nondet_u64(); g_have = 1; g_popped = 0; return &cell_q; }
void Q_POP(void* q) { __CPROVER_assert(q == (void*)&g_engine->f8 && g_have && !g_popped, "the pair read is taken off the queue, once"); g_popped = 1; }
void PREM(void* e, void* b, uint64_t a) { __CPROVER_assert(e == (void*)g_engine && g_have && g_popped && b == (void*)cell_q.f0 && a == cell_q.f1, "C16: processRemove is applied to exactly the pair taken off the queue (after it was taken off)"); g_have = 0; g_popped = 0; g_prem_calls++; }
void h_CS3(void) { g_this = malloc(sizeof *g_this); g_ret = malloc(8); g_part = malloc(8); g_rel = malloc(8); __CPROVER_assume(g_this && g_ret && g_part && g_rel); g_step = 0; g_ret_made = 0;
  CS3(g_ret, g_this, g_part, g_rel, g_out); CANARY("h_CS3"); }
void h_CS1(void) { g_this = malloc(sizeof *g_this); g_ret = malloc(8); __CPROVER_assume(g_this && g_ret); g_S = g_this->f0; pushed_w = 0; g_lpart_made = g_lrel_made = 0; g_cs3_calls = 0;
  CS1(g_ret, g_this, g_out); CANARY("h_CS1"); }
void h_CS0(void) { g_this = malloc(sizeof *g_this); g_ret = malloc(8); __CPROVER_assume(g_this && g_ret); g_S = g_this->f0; g_cs1_calls = 0; CS0(g_ret, g_this); CANARY("h_CS0"); }
void h_RUN(void) { VERIF_dummy_ = 0; g_engine = malloc(sizeof *g_engine); __CPROVER_assume(g_engine); g_have = 0; g_popped = 0; RUN(g_engine); CANARY("h_RUN"); }
