/* Unit fa_reverse (DESIGN.md 5-C10): ExplicitFiniteAutCore::Reverse.
   PROVENANCE: every AddTransition(x, a, y) on the result has (x, a, y) = (r, a, l) for the edge l -a-> r under the three cursors.
   COMPLETENESS: for an arbitrary witness edge wL -wS-> wR of the source, its reversal has been added when the loops finish.
   SWAP: the result's final states are assigned from the start states of the source and vice versa.
   WF-START (representation invariant every other operation and DumpToString rely on: GetStartSymbols(s) dereferences
   startStateToSymbols_.find(s) unconditionally): for an ARBITRARY state wf, if wf is a start state of the result then the result's
   startStateToSymbols_ has an entry for wf.  The operand is well-formed: it has an entry for wf iff wf is one of ITS start states (st_wf). */
P1 cell_e1; P2 cell_e2; uint64_t cell_e3; CLUF cell_cluster;
uint64_t g_L, g_S, g_R; FA* g_res; FA* g_src; uint64_t g_add_calls;
uint64_t wL, wS, wR;                  /* witness edge of the source (arbitrary, fixed by the harness) */
_Bool g_seen1, g_seen2, g_seen3;      /* the witness cluster / symbol entry / target has been handed out by the current traversal */
_Bool g_cur1w, g_cur2w;               /* the element under the outer / middle cursor is the witness one */
_Bool g_added_w;                      /* AddTransition(wR, wS, wL) has been called on the result */
_Bool fin_wf, st_wf, g_res_start_wf, g_res_entry_wf, seen_f; uint64_t wf, cell_f;
uint64_t g_ss_assigns; void *g_ssa_dst1, *g_ssa_src1, *g_ssa_dst2, *g_ssa_src2;
#define RG g_L, g_S, g_R, g_add_calls, cell_e1, cell_e2, cell_e3, g_seen1, g_seen2, g_seen3, g_cur1w, g_cur2w, g_added_w, g_ss_assigns, g_ssa_dst1, g_ssa_src1, g_ssa_dst2, g_ssa_src2, g_res_start_wf, g_res_entry_wf, seen_f, cell_f
#define CONTRACT_REV \
  __CPROVER_requires(v_agg_result == g_res && v_this == g_src && !g_seen1 && !g_added_w && g_ss_assigns == 0) \
  __CPROVER_assigns(RG) \
  __CPROVER_ensures(g_added_w) \
  __CPROVER_ensures(g_res_start_wf ==> g_res_entry_wf) \
  __CPROVER_ensures(g_ss_assigns == 2 && g_ssa_dst1 == (void*)&g_res->f0 && g_ssa_src1 == (void*)&g_src->f1 && g_ssa_dst2 == (void*)&g_res->f1 && g_ssa_src2 == (void*)&g_src->f0)
#define LOOPASG_REV__L_CLUSTERS   , g_L, g_S, g_R, g_add_calls, cell_e1, cell_e2, cell_e3, g_seen1, g_seen2, g_seen3, g_cur1w, g_cur2w, g_added_w
#define LOOPASG_REV__L_SYMS , g_S, g_R, g_add_calls, cell_e2, cell_e3, g_seen2, g_seen3, g_cur2w, g_added_w
#define LOOPASG_REV__L_TARGETS , g_R, g_add_calls, cell_e3, g_seen3, g_added_w
#define LOOP_REV__L_CLUSTERS \
  __CPROVER_loop_invariant((BEGIN_REV__L_CLUSTERS.f0.f0 == 0 ==> g_seen1)) \
  __CPROVER_loop_invariant((g_seen1 ==> g_added_w)) \
  __CPROVER_loop_invariant(END_REV__L_CLUSTERS.f0.f0 == 0)
#define LOOP_REV__L_SYMS \
  __CPROVER_loop_invariant(v_stateToCluster_slot.f0 == g_L) \
  __CPROVER_loop_invariant((g_cur1w ==> g_L == wL)) \
  __CPROVER_loop_invariant(END_REV__L_SYMS.f0.f0 == 0) \
  __CPROVER_loop_invariant(((g_cur1w && BEGIN_REV__L_SYMS.f0.f0 == 0) ==> g_seen2)) \
  __CPROVER_loop_invariant(((g_cur1w && g_seen2) ==> g_added_w)) \
  __CPROVER_loop_invariant(((!g_cur1w && g_seen1) ==> g_added_w))
#define LOOP_REV__L_TARGETS \
  __CPROVER_loop_invariant(v_stateToCluster_slot.f0 == g_L) \
  __CPROVER_loop_invariant(v_symbolToSet_slot.f0 == g_S) \
  __CPROVER_loop_invariant((g_cur1w ==> g_L == wL)) \
  __CPROVER_loop_invariant((g_cur2w ==> g_S == wS)) \
  __CPROVER_loop_invariant(END_REV__L_TARGETS.f0.f0 == 0) \
  __CPROVER_loop_invariant(((g_cur1w && g_cur2w && BEGIN_REV__L_TARGETS.f0.f0 == 0) ==> g_seen3)) \
  __CPROVER_loop_invariant(((g_cur1w && g_cur2w && g_seen3) ==> g_added_w)) \
  __CPROVER_loop_invariant(((!g_cur1w && g_seen1) ==> g_added_w)) \
  __CPROVER_loop_invariant(((g_cur1w && !g_cur2w && g_seen2) ==> g_added_w))
#define LOOPASG_REV__L_FINALS , seen_f, cell_f, g_res_entry_wf
#define LOOP_REV__L_FINALS \
  __CPROVER_loop_invariant(END_REV__L_FINALS.f0.f0 == 0 && (__CPROVER_loop_entry(g_res_entry_wf) ==> g_res_entry_wf)) \
  __CPROVER_loop_invariant((fin_wf && BEGIN_REV__L_FINALS.f0.f0 == 0) ==> seen_f) \
  __CPROVER_loop_invariant((fin_wf && seen_f) ==> g_res_entry_wf)
