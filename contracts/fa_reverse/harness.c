#define CANARY(n) __CPROVER_assert(0, "canary: " n " reaches the end (must FAIL)")
#define TOK(T) ((T)(uintptr_t)8)
#define MAYBE(T) (nondet_bool() ? TOK(T) : (T)0)
_Bool nondet_bool(void); uint64_t nondet_u64(void);
/* ---------------- witness traversal model of the three hash containers (assumed: T1-T4 of DESIGN.md 3.2) ---------------- */
HN1 M1_BEGIN(MAPF* m) { g_seen1 = 0; return TOK(HN1); /* the witness cluster exists: map non-empty */ }
HN1 M1_END(MAPF* m) { return (HN1)0; }
HN2 M2_BEGIN(CLUF* m) { g_seen2 = 0; return g_cur1w ? TOK(HN2) : MAYBE(HN2); }
HN2 M2_END(CLUF* m) { return (HN2)0; }
HN3 S3_BEGIN(void* m) { g_seen3 = 0; return (g_cur1w && g_cur2w) ? TOK(HN3) : MAYBE(HN3); }
HN3 S3_END(void* m) { return (HN3)0; }
IT1* IT1_INC(IT1* it) { it->f0.f0 = MAYBE(HN1); __CPROVER_assume(it->f0.f0 != 0 || g_seen1); return it; }
IT2* IT2_INC(IT2* it) { it->f0.f0 = MAYBE(HN2); __CPROVER_assume(it->f0.f0 != 0 || !g_cur1w || g_seen2); return it; }
IT3* IT3_INC(IT3* it) { it->f0.f0 = MAYBE(HN3); __CPROVER_assume(it->f0.f0 != 0 || !(g_cur1w && g_cur2w) || g_seen3); return it; }
/* dereference: hands out an element with arbitrary content and publishes it in the ghost cursor */
P1* IT1_DEREF(IT1* it) { __CPROVER_assert(it->f0.f0 != 0, "no dereference of an end iterator"); P1* e = &cell_e1;
  uint64_t q = nondet_u64(); _Bool w = nondet_bool() && !g_seen1; __CPROVER_assume(w ? q == wL : q != wL); g_cur1w = w; if (w) g_seen1 = 1; e->f0 = q; e->f1.f0.f0 = &cell_cluster; g_L = q; return e; }
P2* IT2_DEREF(IT2* it) { __CPROVER_assert(it->f0.f0 != 0, "no dereference of an end iterator"); P2* e = &cell_e2; uint64_t s = nondet_u64();
  _Bool w = g_cur1w && nondet_bool() && !g_seen2; __CPROVER_assume(!g_cur1w || (w ? s == wS : s != wS)); g_cur2w = w; if (w) g_seen2 = 1; e->f0 = s; g_S = s; return e; }
uint64_t* IT3_DEREF(IT3* it) { __CPROVER_assert(it->f0.f0 != 0, "no dereference of an end iterator"); uint64_t* e = &cell_e3; uint64_t r = nondet_u64();
  _Bool w = g_cur1w && g_cur2w && nondet_bool() && !g_seen3; __CPROVER_assume(!(g_cur1w && g_cur2w) || (w ? r == wR : r != wR)); if (w) g_seen3 = 1; *e = r; g_R = r; return e; }
/* element copies / destructors: value-preserving */
void P1_COPY(P1* d, P1* s) { d->f0 = s->f0; d->f1 = s->f1; }
void P2_COPY(P2* d, P2* s) { d->f0 = s->f0; }
void P1_DTOR(P1* p) { } void P2_DTOR(P2* p) { }
/* which set is assigned from which (swap of start and final states) */
SS* SS_ASSIGN(SS* d, SS* s) { if (g_ss_assigns == 0) { g_ssa_dst1 = d; g_ssa_src1 = s; } else { g_ssa_dst2 = d; g_ssa_src2 = s; } g_ss_assigns++;
  if (d == (SS*)&g_res->f1) g_res_start_wf = (s == (SS*)&g_src->f0) ? fin_wf : ((s == (SS*)&g_src->f1) ? st_wf : nondet_bool()); return d; }
SMAP* SMAP_ASSIGN(SMAP* d, SMAP* s) { if (d == (SMAP*)&g_res->f2) g_res_entry_wf = (s == (SMAP*)&g_src->f2) ? st_wf : nondet_bool(); return d; }
/* the final states of the operand (witness traversal) and the entries added to the result's start-symbol map */
HNF FS_BEGIN(USET* s) { __CPROVER_assert(s == (void*)&g_src->f0, "traversal of the operand's final states"); seen_f = 0; return fin_wf ? TOK(HNF) : MAYBE(HNF); }
HNF FS_END(USET* s) { return (HNF)0; }
uint64_t* FSI_DEREF(FSI* it) { __CPROVER_assert(it->f0.f0 != 0, "no dereference of an end iterator"); _Bool w = fin_wf && nondet_bool() && !seen_f; if (w) seen_f = 1;
  cell_f = nondet_u64(); if (w) cell_f = wf; else __CPROVER_assume(cell_f != wf); return &cell_f; }
FSI* FSI_INC(FSI* it) { it->f0.f0 = MAYBE(HNF); __CPROVER_assume(it->f0.f0 != 0 || !fin_wf || seen_f); return it; }
void SYMSET_CTOR(USET* s) { } void SYMSET_DTOR(USET* s) { } void PAIR_SS_DTOR(PAIR_SS* p) { }
void MKPAIR_SS(PAIR_SS* ret, uint64_t* k, USET* set) { ret->f0 = *k; }
SMAP_INSRET SMAP_INSERT(SMAP* m, PAIR_SS* kv) { __CPROVER_assert(m == (void*)&g_res->f2, "entries are added to the result's start-symbol map");
  if (((PAIR_SS*)kv)->f0 == wf) g_res_entry_wf = 1; SMAP_INSRET r; r.f1 = nondet_bool(); return r; }
void FA_CTOR(FA* a, void* al) { } void FA_DTOR(FA* a) { }
/* call-site contract: only the reversed current edge may be added, to the result */
void ADDT(FA* a, uint64_t* from, uint64_t* sym, uint64_t* to) {
  __CPROVER_assert(a == g_res, "C10 Reverse: the edge is added to the result automaton");
  __CPROVER_assert(*from == g_R && *sym == g_S && *to == g_L, "C10 Reverse: the added edge is the reversal (R -S-> L) of the edge under the cursors");
  if (*from == wR && *sym == wS && *to == wL) g_added_w = 1; g_add_calls++; }
void h_REV(void) { FA* self = malloc(sizeof *self); FA* res = malloc(sizeof *res); MAPF* m = malloc(sizeof *m); __CPROVER_assume(self && res && m);
  self->f3.f0.f0 = m; g_res = res; g_src = self; g_seen1 = 0; g_added_w = 0; g_ss_assigns = 0; g_res_start_wf = 0; g_res_entry_wf = 0; REV(res, self, 0); CANARY("h_REV"); }
