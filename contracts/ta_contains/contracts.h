/* Unit ta_contains (DESIGN.md 5-C12): ContainsTransition and AddTransition against the abstract three-level store
   CL : state -> cluster | none,  TS : cluster x symbol -> tuple set | none,  IN : tuple set x canonical tuple pointer -> bool
   (uninterpreted lookups; the functions are loop-free, so the proofs are complete for stores of any size). */
uint64_t __CPROVER_uninterpreted_CL(uint64_t state);
uint64_t __CPROVER_uninterpreted_TS(uint64_t cluster, uint64_t symbol);
uint64_t __CPROVER_uninterpreted_IN(uint64_t tset, uint64_t tuple);
uint64_t __CPROVER_uninterpreted_LOOKUP(VEC* children);
#define CL(p)      __CPROVER_uninterpreted_CL(p)
#define TS(c,s)    __CPROVER_uninterpreted_TS(c,s)
#define IN(t,x)    (__CPROVER_uninterpreted_IN(t,x) != 0)
#define LOOKUP(v)  __CPROVER_uninterpreted_LOOKUP(v)
#define HAS(p,s,t) (CL(p) != 0 && TS(CL(p), s) != 0 && IN(TS(CL(p), s), t))
E1 cell_e1; E2 cell_e2; SPV cell_tp; SPV cell_any; struct { uint64_t* b; uint64_t* e; uint64_t* c; } cell_vec; uint64_t g_lookups, g_iat_calls, g_iat_tuple, g_iat_sym, g_iat_parent; void* g_iat_this; uint64_t g_spv_dtors;
#define CT_GHOSTS cell_e1, cell_e2, cell_tp, cell_any, cell_vec, g_lookups, g_iat_calls, g_iat_tuple, g_iat_sym, g_iat_parent, g_iat_this, g_spv_dtors
/* ContainsTransition(children, symbol, parent): true exactly for the rules in the store; nothing is modified */
#define CONTRACT_CONTAINS \
  __CPROVER_requires(v_this->f2.f0.f0 != 0) \
  __CPROVER_assigns(CT_GHOSTS) \
  __CPROVER_ensures(__CPROVER_return_value == HAS(*v_parent, *v_symbol, LOOKUP(v_children)))
/* AddTransition(children, symbol, parent): adds exactly the rule (canonical tuple of children, symbol, parent) to this automaton */
#define CONTRACT_ADDT \
  __CPROVER_requires(g_iat_calls == 0) \
  __CPROVER_assigns(CT_GHOSTS) \
  __CPROVER_ensures(g_iat_calls == 1 && g_iat_this == (void*)v_this && g_iat_tuple == LOOKUP(v_children) && g_iat_sym == *v_symbol && g_iat_parent == *v_parent)
