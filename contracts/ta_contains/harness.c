#define CANARY(n) __CPROVER_assert(0, "canary: " n " reaches the end (must FAIL)")
_Bool nondet_bool(void);
#define TOKEN(T) ((T)(uintptr_t)8)
AUT* g_aut;
HN1 CMAP_FIND(CMAP* m, uint64_t* p) { __CPROVER_assert((void*)m == (void*)g_aut->f2.f0.f0, "find() on the automaton's cluster map"); uint64_t c = CL(*p); if (c == 0) return (HN1)0; cell_e1.f0 = *p; cell_e1.f1.f0.f0 = (CLU*)c; return TOKEN(HN1); }
HN1 CMAP_END(CMAP* m) { return (HN1)0; }
E1* MAP_ARROW(NI1m* it) { __CPROVER_assert(it->f0.f0 != 0, "-> on a found cluster-map entry"); return &cell_e1; }
HN2 CLU_CFIND(CLU* c, uint64_t* s) { uint64_t t = TS((uint64_t)c, *s); if (t == 0) return (HN2)0; cell_e2.f0 = *s; cell_e2.f1.f0.f0 = (TSET*)t; return TOKEN(HN2); }
HN2 CLU_CEND(CLU* c) { return (HN2)0; }
E2* CLU_CARROW(NI2* it) { __CPROVER_assert(it->f0.f0 != 0, "-> on a found symbol entry"); return &cell_e2; }
RBN TSET_FIND(TSET* t, SPV* x) { return IN((uint64_t)t, (uint64_t)x->f0.f0) ? TOKEN(RBN) : (RBN)0; }
RBN TSET_END(TSET* t) { return (RBN)0; }
/* not used by the code today; present so that a change that peeks at stored tuples is still decided instead of aborting the extraction */
RBN TSET_BEGIN(TSET* t) { return TOKEN(RBN); /* store invariant NE: no tuple set is empty */ }
SPV* RBI_DEREF(RBI* it) { __CPROVER_assert(it->f0 != 0, "* on a dereferenceable tuple iterator"); uint64_t n; cell_vec.b = 0; cell_vec.e = (uint64_t*)(n * 8); cell_any.f0.f0 = (void*)&cell_vec; return &cell_any; }
void TUPLE_LOOKUP(SPV* ret, AUT* a, VEC* children) { __CPROVER_assert(a == g_aut, "tupleLookup on this automaton"); ret->f0.f0 = (void*)LOOKUP(children); g_lookups++; }
void SPV_DTOR(SPV* p) { g_spv_dtors++; }
void IAT(AUT* a, SPV* t, uint64_t* s, uint64_t* p) { g_iat_calls++; g_iat_this = a; g_iat_tuple = (uint64_t)t->f0.f0; g_iat_sym = *s; g_iat_parent = *p; }
void h_CONTAINS(void) { AUT* a = malloc(sizeof *a); VEC* v = malloc(sizeof *v); CMAP* m = malloc(sizeof *m); __CPROVER_assume(a && v && m); a->f2.f0.f0 = m; g_aut = a; uint64_t s, p; CONTAINS(a, v, &s, &p); CANARY("h_CONTAINS"); }
void h_ADDT(void) { AUT* a = malloc(sizeof *a); VEC* v = malloc(sizeof *v); __CPROVER_assume(a && v); g_aut = a; g_iat_calls = 0; uint64_t s, p; ADDT(a, v, &s, &p); CANARY("h_ADDT"); }
