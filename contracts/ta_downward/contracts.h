/* Unit ta_downward (DESIGN.md 5-C04, 11): ExplicitTreeAutCore::TranslateDownward -- the encoding for the downward simulation.  PROVENANCE, for automata of any size
   (uninterpreted: IDXF state index functor, SYMTF symbol translator, CHILDF(tuple, k) the k-th child; the lhs translator as an arbitrary function of the tuple pointer):
   (W1) the LTS is constructed with numStates states in the result object; the final states are passed to the index functor first;
   (W2) a rule a(..) -> q with exactly ONE child p gives the edge (IDXF(q), SYMTF(a), IDXF(p));  any other rule gives (IDXF(q), SYMTF(a), lhsTranslator(tuple));
   (W3) for every left-hand side (tuple, L) recorded in lhsMap and the position i in hand: the edge (L, |translated symbols| + i, IDXF(child i)), i counting the children traversed;
   (W4) init() last; the LTS is returned, not destroyed.   Completeness (every rule produces its edges) is not decided here. */
#define SP_PTR(sp) ((sp)->f0.f0)
AUT* g_this; void *g_lts, *g_index, *m_src, *g_fin, *g_symtw, *g_lhstw, *g_symmap, *g_lhsmap; uint64_t g_n; uint8_t g_phase;
uint64_t g_cq, g_state_idx, g_cur_sym, g_sym_idx, g_tid, g_tsize, g_dest, g_pos, g_len, g_nsym, cell_f, cell_child, cell_front; _Bool g_lhs_called;
E_CMAP cell_cm; E_CLU cell_clu; SPV cell_tup; E_LHS cell_lhs;
#define G_TUP  g_tid, g_tsize, g_dest, g_lhs_called, cell_tup, cell_front
#define G_SYMS G_TUP, g_cur_sym, g_sym_idx, cell_clu
#define G_OWN  G_SYMS, g_cq, g_state_idx, cell_cm
#define G_CH   g_pos, cell_child
#define G_LHS  G_CH, g_tid, g_len, cell_lhs
#define CONTRACT_TDN \
  __CPROVER_requires(v_this == g_this && v_agg_result == g_lts && v_numStates == g_n && v_stateIndex == g_index && g_phase == 0) \
  __CPROVER_assigns(G_OWN, G_LHS, cell_f, g_phase, g_symtw, g_lhstw, g_symmap, g_lhsmap) \
  __CPROVER_ensures(g_phase == 4)
#define CTX(p) (g_phase == (p) && g_symtw == (void*)&v_symbolTranslator_slot && g_lhstw == (void*)&v_lhsTranslator_slot && g_symmap == (void*)&v_symbolMap_slot && g_lhsmap == (void*)&v_lhsMap_slot)
#define LOOPASG_TDN__L_FINALS , cell_f
#define LOOP_TDN__L_FINALS __CPROVER_loop_invariant(END_TDN__L_FINALS.f0.f0 == 0 && CTX(1))
#define LOOPASG_TDN__L_OWNERS , G_OWN
#define LOOP_TDN__L_OWNERS __CPROVER_loop_invariant(END_TDN__L_OWNERS.f0.f0 == 0 && CTX(1))
#define LOOPASG_TDN__L_SYMS , G_SYMS
#define LOOP_TDN__L_SYMS __CPROVER_loop_invariant(END_TDN__L_SYMS.f0.f0 == 0 && CTX(1) && v_state_slot == g_state_idx)
#define LOOPASG_TDN__L_TUPLES , G_TUP
#define LOOP_TDN__L_TUPLES __CPROVER_loop_invariant(END_TDN__L_TUPLES.f0 == 0 && CTX(1) && v_state_slot == g_state_idx && v_symbol_slot == g_sym_idx)
#define LOOPASG_TDN__L_LHS , G_LHS
#define LOOP_TDN__L_LHS __CPROVER_loop_invariant(END_TDN__L_LHS.f0.f0 == 0 && CTX(2))
#define LOOPASG_TDN__L_CHILDREN , G_CH
#define LOOP_TDN__L_CHILDREN __CPROVER_loop_invariant(END_TDN__L_CHILDREN.f0 == 0 && CTX(2) && v_i_slot == g_pos && g_pos <= g_len && ((BEGIN_TDN__L_CHILDREN.f0 == 0) == (g_pos == g_len)) && v_tupleIndexPair_slot == &cell_lhs)
