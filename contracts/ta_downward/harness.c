#define CANARY(n) __CPROVER_assert(0, "canary: " n " reaches the end (must FAIL)")
#define TOK ((void*)(uintptr_t)8)
#define MAYBE (nondet_bool() ? TOK : (void*)0)
_Bool nondet_bool(void); uint64_t nondet_u64(void);
uint64_t __CPROVER_uninterpreted_IDXF(uint64_t s); uint64_t __CPROVER_uninterpreted_SYMTF(uint64_t a); uint64_t __CPROVER_uninterpreted_CHILDF(uint64_t t, uint64_t k); uint64_t __CPROVER_uninterpreted_LENF(uint64_t t);
#define IDXF(s) __CPROVER_uninterpreted_IDXF(s)
void UMAP_CTOR(void* m) { g_symmap = m; } void UMAP_DTOR(void* m) { } void LHSMAP_CTOR(void* m) { g_lhsmap = m; } void LHSMAP_DTOR(void* m) { }
void FUNC1_CTOR(void* f, void* c) { } void FUNC1_DTOR(void* f) { } void FUNC2_CTOR(void* f, void* c) { __CPROVER_assert(*(((uint64_t**)c)[0]) == g_n, "C04: left-hand-side nodes are numbered from numStates on"); } void FUNC2_DTOR(void* f) { }
void TW2S_CTOR(void* tw, void* map, void* f) { __CPROVER_assert(map == g_symmap, "the symbol translator works on symbolMap"); g_symtw = tw; }
void TW2L_CTOR(void* tw, void* map, void* f) { __CPROVER_assert(map == g_lhsmap, "the left-hand-side translator works on lhsMap"); g_lhstw = tw; }
void TW2S_DTOR(void* t) { } void TW2L_DTOR(void* t) { } void LTS_DTOR(void* l) { __CPROVER_assert(0, "the LTS returned is not destroyed"); }
void LTS_CTOR(void* l, uint64_t n) { __CPROVER_assert(l == g_lts && n == g_n && g_phase == 0, "C04: the LTS is constructed once, in the result object, with numStates states"); g_phase = 1; }
void* GET_FINALS(void* a) { __CPROVER_assert(a == (void*)g_this, "final states of *this"); return g_fin; }
void* FS_BEGIN(void* s) { __CPROVER_assert(s == g_fin, "traversal of the final states"); return MAYBE; } void* FS_END(void* s) { return (void*)0; }
uint64_t* FSI_DEREF(void* it_) { FSI* it = (FSI*)it_; __CPROVER_assert(it->f0.f0 != 0, "no dereference of an end iterator"); cell_f = nondet_u64(); return &cell_f; }
void* FSI_INC(void* it_) { FSI* it = (FSI*)it_; it->f0.f0 = MAYBE; return it; }
uint64_t IDX_AT(void* ix, uint64_t* s) { __CPROVER_assert(ix == g_index, "the state index functor passed in"); return IDXF(*s); }
void* CMAP_BEGIN(void* m) { __CPROVER_assert(m == m_src, "traversal of the cluster map of *this"); return MAYBE; } void* CMAP_END(void* m) { return (void*)0; }
void* CMAP_DEREF(void* it_) { CMI* it = (CMI*)it_; __CPROVER_assert(it->f0.f0 != 0, "no dereference of an end iterator"); g_cq = nondet_u64(); g_state_idx = IDXF(g_cq); cell_cm.f0 = g_cq; SP_PTR(&cell_cm.f1) = TOK; return &cell_cm; }
void* CMAP_INC(void* it_) { CMI* it = (CMI*)it_; it->f0.f0 = MAYBE; return it; }
void* CLU_BEGIN(void* c) { return MAYBE; } void* CLU_END(void* c) { return (void*)0; }
void* CLU_DEREF(void* it_) { CLI* it = (CLI*)it_; __CPROVER_assert(it->f0.f0 != 0, "no dereference of an end iterator"); g_cur_sym = nondet_u64(); cell_clu.f0 = g_cur_sym; SP_PTR(&cell_clu.f1) = TOK; return &cell_clu; }
void* CLU_INC(void* it_) { CLI* it = (CLI*)it_; it->f0.f0 = MAYBE; return it; }
uint64_t SYM_TRANSL(void* tw, uint64_t* a) { __CPROVER_assert(tw == g_symtw && *a == g_cur_sym, "the symbol under the cursor is translated"); g_sym_idx = __CPROVER_uninterpreted_SYMTF(*a); return g_sym_idx; }
void* TSET_BEGIN(void* t) { return MAYBE; } void* TSET_END(void* t) { return (void*)0; }
void* RBI_DEREF(void* it_) { RBI* it = (RBI*)it_; __CPROVER_assert(it->f0 != 0, "no dereference of an end iterator"); g_tid = nondet_u64(); __CPROVER_assume(g_tid != 0); g_tsize = __CPROVER_uninterpreted_LENF(g_tid); g_lhs_called = 0; SP_PTR(&cell_tup) = (void*)(uintptr_t)g_tid; return &cell_tup; }
void* RBI_INC(void* it_) { RBI* it = (RBI*)it_; it->f0 = MAYBE; return it; }
uint64_t VEC_SIZE(void* v) { __CPROVER_assert(v == (void*)(uintptr_t)g_tid, "the tuple under the cursor"); return g_tsize; }
uint64_t* VEC_FRONT(void* v) { __CPROVER_assert(v == (void*)(uintptr_t)g_tid && g_tsize >= 1, "C20: front() of a non-empty tuple"); cell_front = __CPROVER_uninterpreted_CHILDF(g_tid, 0); return &cell_front; }
uint64_t LHS_TRANSL(void* tw, void** tp) { __CPROVER_assert(tw == g_lhstw && *tp == (void*)(uintptr_t)g_tid, "the tuple under the cursor is given to the left-hand-side translator"); g_lhs_called = 1; g_dest = nondet_u64(); return g_dest; }
void ADDT(void* l, uint64_t from, uint64_t sym, uint64_t to) { __CPROVER_assert(l == g_lts, "edges go into the LTS returned");
  if (g_phase == 1) { if (g_tsize == 1) __CPROVER_assert(from == g_state_idx && sym == g_sym_idx && to == IDXF(__CPROVER_uninterpreted_CHILDF(g_tid, 0)), "C04: a rule with one child gives (parent, symbol, child)");
    else __CPROVER_assert(from == g_state_idx && sym == g_sym_idx && g_lhs_called && to == g_dest, "C04: any other rule gives (parent, symbol, node of its left-hand side)"); }
  else { __CPROVER_assert(g_phase == 2, "edges are added while the rules / the left-hand sides are traversed");
    __CPROVER_assert(from == cell_lhs.f1 && sym == g_nsym + g_pos && g_pos < g_len && to == IDXF(__CPROVER_uninterpreted_CHILDF(g_tid, g_pos)), "C04: a left-hand side gives (its node, position symbol |symbols| + i, child i)"); } }
void* LHSMAP_BEGIN(void* m) { __CPROVER_assert(m == g_lhsmap && g_phase == 1, "the left-hand sides recorded are traversed after the rules"); g_phase = 2; return MAYBE; } void* LHSMAP_END(void* m) { return (void*)0; }
void* LMI_DEREF(void* it_) { LMI* it = (LMI*)it_; __CPROVER_assert(it->f0.f0 != 0, "no dereference of an end iterator"); g_tid = nondet_u64(); __CPROVER_assume(g_tid != 0); g_len = __CPROVER_uninterpreted_LENF(g_tid); *(void**)&cell_lhs.f0 = (void*)(uintptr_t)g_tid; cell_lhs.f1 = nondet_u64(); return &cell_lhs; }
void* LMI_INC(void* it_) { LMI* it = (LMI*)it_; it->f0.f0 = MAYBE; return it; }
uint64_t* TUP_BEGIN(void* v) { __CPROVER_assert(v == (void*)(uintptr_t)g_tid, "the children of the left-hand side under the cursor"); g_pos = 0; return (uint64_t*)(g_len > 0 ? TOK : (void*)0); }
uint64_t* TUP_END(void* v) { return (uint64_t*)0; }
uint64_t* NIT_DEREF(void* it_) { NIT* it = (NIT*)it_; __CPROVER_assert(it->f0 != 0, "no dereference of an end iterator"); cell_child = __CPROVER_uninterpreted_CHILDF(g_tid, g_pos); return &cell_child; }
void* NIT_INC(void* it_) { NIT* it = (NIT*)it_; g_pos++; it->f0 = (uint64_t*)(g_pos < g_len ? TOK : (void*)0); return it; }
uint64_t UMAP_SIZE(void* m) { __CPROVER_assert(m == g_symmap, "number of translated symbols"); return g_nsym; }
void LTS_INIT(void* l) { __CPROVER_assert(l == g_lts && (g_phase == 2 || g_phase == 1), "the LTS is initialised last"); g_phase = 4; }
void h_TDN(void) { g_this = malloc(sizeof *g_this); m_src = malloc(64); g_lts = malloc(64); g_index = malloc(48); g_fin = malloc(56); __CPROVER_assume(g_this && m_src && g_lts && g_index && g_fin); SP_PTR(&g_this->f2) = m_src; g_phase = 0;
  TDN(g_lts, g_this, g_n, g_index); CANARY("h_TDN"); }
