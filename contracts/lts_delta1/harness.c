#define CANARY(n) __CPROVER_assert(0, "canary: " n " reaches the end (must FAIL)")
#define TOKV(i) ((void*)(uintptr_t)(((i) + 1) * 8))
#define IDXV(p) ((uint64_t)(uintptr_t)(p) / 8 - 1)
#define TOKSS ((void*)(uintptr_t)24)
uint64_t nondet_u64(void);
uint64_t __CPROVER_uninterpreted_OUTDEG(uint64_t a, uint64_t q);
uint64_t D_SIZE(void* d) { __CPROVER_assert(d == (void*)&g_this->f2, "size of data_ (the number of labels)"); return g_L; }
void SS_CTOR(void* s, uint64_t n) { __CPROVER_assert(n == g_S, "C16/C20: every set of delta1 ranges over [0, states_)"); g_ss_ok = 1; } void SS_DTOR(void* s) { }
void DL_RESIZE(void* v, uint64_t n, void* proto) { __CPROVER_assert(v == g_delta && n == g_L && g_ss_ok && !g_resized, "C16: delta1 gets one set per label"); g_resized = 1; }
void* D_AT(void* d, uint64_t a) { __CPROVER_assert(d == (void*)&g_this->f2 && a < g_L, "C20: data_ is indexed below the number of labels"); g_cur_a = a; g_fsz = FSZ(a); __CPROVER_assume(g_fsz <= g_S);   /* representation invariant of the system (unit lts_addtrans) */ g_dat_valid = 1; return cell_pair; }
uint64_t VV_SIZE(void* v) { __CPROVER_assert(g_dat_valid && v == (void*)&cell_pair->f0, "size of first of the label under the cursor"); return g_fsz; }
void* VV_AT(void* v, uint64_t q) { __CPROVER_assert(g_dat_valid && v == (void*)&cell_pair->f0 && q < g_fsz, "C20: first is indexed below its size"); g_cur_q = q; return TOKV(q); }
uint64_t V_SIZE(void* v) { __CPROVER_assert(IDXV(v) == g_cur_q, "the successor list of the state under the cursor"); g_out = __CPROVER_uninterpreted_OUTDEG(g_cur_a, g_cur_q); g_out_valid = 1; return g_out; }
void* DL_AT(void* v, uint64_t a) { __CPROVER_assert(v == g_delta && g_resized && a < g_L, "C20: delta1 is indexed below its (new) size"); g_dl_valid = (a == g_cur_a) || 1; g_cur_a = a; return TOKSS; }
uint64_t SS_COUNT(void* s, uint64_t* q) { __CPROVER_assert(s == TOKSS && *q < g_S, "C20: count() gets a state below the range of the set"); g_cur_q = *q; g_cnt_ret = nondet_u64(); g_cnt_valid = 1; return g_cnt_ret; }
void SS_INIT(void* s, uint64_t* q, uint64_t c) { __CPROVER_assert(s == TOKSS && *q < g_S && *q == g_cur_q && g_cnt_valid && g_out_valid && c == g_cnt_ret + g_out, "C16: init(q, count(q) + number of successors of q) on the set of the label under the cursor");
  g_cnt_valid = 0; g_out_valid = 0; if (g_cur_a == wa && *q == wq) init_w++; }
void h_BD1(void) { g_this = malloc(sizeof *g_this); g_delta = malloc(8); cell_pair = malloc(sizeof *cell_pair); __CPROVER_assume(g_this && g_delta && cell_pair); g_S = g_this->f0;
  __CPROVER_assume(g_S < ((uint64_t)1 << 48) && FSZ(wa) <= g_S); init_w = 0; g_resized = 0; g_ss_ok = 0;
  BD1(g_this, g_delta); CANARY("h_BD1"); }
