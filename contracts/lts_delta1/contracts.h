/* Unit lts_delta1 (DESIGN.md 5-C16, 11): ExplicitLTS::buildDelta1(delta1) -- for every label the set of states that have a successor under it, with
   multiplicities; init() builds the counter keys and the initial refinement from it.
     delta1 is resized to one set per label, each over the range [0, states_);
     for an ARBITRARY label wa < labels and state wq < data_[wa].first.size():  delta1[wa].init(wq, delta1[wa].count(wq) + |post_wa(wq)|) is called,
     exactly once;   only such calls are made (label / state under the cursors);
     C20: count / init get a state below the set's range (first.size() <= states_, the representation invariant of the system), delta1 and data_
     are indexed below their sizes. */
LTS* g_this; void* g_delta; uint64_t g_L, g_S, wa, wq; uint64_t init_w; _Bool g_resized, g_ss_ok;
uint64_t g_cur_a, g_cur_q, g_fsz, g_cnt_ret, g_out; _Bool g_dat_valid, g_dl_valid, g_cnt_valid, g_out_valid; DPAIR* cell_pair;
#define G_ST init_w, g_cur_q, g_cnt_ret, g_out, g_cnt_valid, g_out_valid, g_dat_valid, g_dl_valid, g_cur_a, g_fsz
#define CONTRACT_BD1 \
  __CPROVER_requires(v_this == g_this && v_delta1 == g_delta && g_this->f0 == g_S && init_w == 0 && !g_resized && !g_ss_ok) \
  __CPROVER_assigns(G_ST, g_resized, g_ss_ok) \
  __CPROVER_ensures(g_resized && init_w <= 1) \
  __CPROVER_ensures((wa < g_L && wq < FSZ(wa)) ==> init_w == 1)
uint64_t __CPROVER_uninterpreted_FSZ(uint64_t a);
extern uint64_t T_FSZ[__CPROVER_constant_infinity_uint];
#define FSZ(a) T_FSZ[a]
#define LOOPASG_BD1__L_LABELS , G_ST
#define LOOP_BD1__L_LABELS \
  __CPROVER_loop_invariant(v_a_slot <= g_L && g_resized && init_w <= 1 && ((wa < v_a_slot && wq < FSZ(wa)) ==> init_w == 1) && ((wa >= v_a_slot) ==> init_w == 0))
#define LOOPASG_BD1__L_STATES , G_ST
#define LOOP_BD1__L_STATES \
  __CPROVER_loop_invariant(v_a_slot < g_L && v_q_slot <= FSZ(v_a_slot) && g_resized && init_w <= 1 && ((wa < v_a_slot && wq < FSZ(wa)) ==> init_w == 1) && (wa > v_a_slot ==> init_w == 0)) \
  __CPROVER_loop_invariant(wa == v_a_slot ==> ((wq < v_q_slot) == (init_w == 1)))
