#define CANARY(n) __CPROVER_assert(0, "canary: " n " reaches the end (must FAIL)")
void VV_CTOR(void* v) { g_part = v; } void VV_DTOR(void* v) { } void UMAP_DTOR(void* m) { } void FUNC_DTOR(void* f) { } void TW_DTOR(void* t) { } void LTS_DTOR(void* l) { }
void BR_CTOR3(void* r, uint64_t n, _Bool dv, uint64_t rs) { __CPROVER_assert(n == 0 && !dv, "the initial relation of the encoding starts empty"); g_rel = r; }
void BR_DTOR(void* r) { __CPROVER_assert(r != g_ret, "the relation returned is not destroyed"); }
void UMAP_CTOR(void* m) { g_map = m; }
static void func_ctor(void* f, void* closure) { void* cnt = ((void**)closure)[0]; __CPROVER_assert(*(uint64_t*)cnt == 0, "C04: the dense index starts at 0"); g_func = f; g_cnt = cnt; }
void FUNC_UP(void* f, void* c) { func_ctor(f, c); } void FUNC_DOWN(void* f, void* c) { func_ctor(f, c); }
void TW_CTOR(void* tw, void* map, void* f) { __CPROVER_assert(map == g_map && g_map != 0 && f == g_func && g_func != 0, "C04: the translator works on the fresh local state map with the counting closure"); g_tw = tw; }
void ID_CTOR(void* id, uint64_t n) { __CPROVER_assert(n == g_size, "C04: the upward encoding starts from the identity on the caller's number of states"); g_id = id; }
void TUP(void* ret, void* self, void* part, void* rel, void* id, void* tw) { __CPROVER_assert(self == (void*)g_this && part == g_part && g_part != 0 && rel == g_rel && g_rel != 0 && id == g_id && g_id != 0 && tw == g_tw && g_tw != 0 && g_step == 0,
   "C04: *this is encoded upward with the fresh partition / relation, the identity and THE translator"); g_lts = ret; g_step = 1; }
void TDOWN(void* ret, void* self, uint64_t n, void* tw) { __CPROVER_assert(self == (void*)g_this && n == g_size && tw == g_tw && g_tw != 0 && g_step == 0, "C04: *this is encoded downward with the caller's number of states and THE translator"); g_lts = ret; g_step = 1; }
void CS3(void* ret, void* lts, void* part, void* rel, uint64_t n) { __CPROVER_assert(lts == g_lts && part == g_part && rel == g_rel && n == g_size && g_step == 1,
   "C04: the engine runs on the system just built, with the partition / relation the encoding filled and the caller's number of states as output size"); g_sim = ret; g_step = 2; }
void CS1(void* ret, void* lts, uint64_t n) { __CPROVER_assert(lts == g_lts && n == g_size && g_step == 1, "C04: the engine runs on the system just built, reporting the caller's number of states"); g_sim = ret; g_step = 2; }
void DBR_CTOR(void* d, void* sim, void* map) { __CPROVER_assert(d == g_ret && sim == g_sim && g_step == 2, "the relation returned is built from the engine's result");
  __CPROVER_assert(map == g_map, "C04: ... and indexed through the SAME state map the encoding filled"); g_ret_made = 1; g_step = 3; }
static void mk(void) { g_this = malloc(sizeof *g_this); g_ret = malloc(8); __CPROVER_assume(g_this && g_ret); g_step = 0; g_ret_made = 0; g_part = g_rel = g_map = g_func = g_tw = g_id = (void*)0; }
void h_UP(void) { mk(); UP(g_ret, g_this, g_size); CANARY("h_UP"); }
void h_DOWN(void) { mk(); DOWN(g_ret, g_this, g_size); CANARY("h_DOWN"); }
void h_CLO_UP(void) { g_clo = malloc(sizeof *g_clo); g_cntp = malloc(8); uint64_t* a = malloc(8); __CPROVER_assume(g_clo && g_cntp && a); g_clo->f0 = g_cntp; g_cnt0 = *g_cntp; __CPROVER_assume(g_cnt0 < UINT64_MAX); uint64_t r = CLO_UP(g_clo, a); CANARY("h_CLO_UP"); }
void h_CLO_DOWN(void) { g_clo2 = malloc(sizeof *g_clo2); g_cntp = malloc(8); uint64_t* a = malloc(8); __CPROVER_assume(g_clo2 && g_cntp && a); g_clo2->f0 = g_cntp; g_cnt0 = *g_cntp; __CPROVER_assume(g_cnt0 < UINT64_MAX); uint64_t r = CLO_DOWN(g_clo2, a); CANARY("h_CLO_DOWN"); }
