/* Unit ta_simcompose (DESIGN.md 5-C04, 11): ComputeUpwardSimulation(size) / ComputeDownwardSimulation(size) as compositions.
   A weak translator is built over a LOCAL, fresh state map with a number-giving closure over a counter that is 0 when it is built (dense index in
   visiting order: the closure returns the counter and advances it); the automaton is encoded with THAT translator
     upward:   lts = TranslateUpward(partition, relation, Identity(size), translator)  -- partition / relation are fresh locals filled by the encoding --,
               ltsSim = lts.computeSimulation(partition, relation, size)                -- the SAME two objects, the caller's number of states as output size --
     downward: lts = TranslateDownward(size, translator);  ltsSim = lts.computeSimulation(size)
   and the relation returned is DiscontBinaryRelation(ltsSim, the SAME state map): "the result relation is indexed through it". */
AUT* g_this; void* g_ret; uint64_t g_size, g_step; void *g_part, *g_rel, *g_map, *g_func, *g_tw, *g_cnt, *g_id, *g_lts, *g_sim; _Bool g_ret_made;
CLOSURE* g_clo; CLOSURE2* g_clo2; uint64_t* g_cntp; uint64_t g_cnt0;
#define SG g_step, g_part, g_rel, g_map, g_func, g_tw, g_cnt, g_id, g_lts, g_sim, g_ret_made
#define COMPOSE_CONTRACT \
  __CPROVER_requires(v_this == g_this && v_agg_result == g_ret && v_size == g_size && g_step == 0 && !g_ret_made) \
  __CPROVER_assigns(SG) \
  __CPROVER_ensures(g_step == 3 && g_ret_made)
#define CONTRACT_UP COMPOSE_CONTRACT
#define CONTRACT_DOWN COMPOSE_CONTRACT
#define CONTRACT_CLO_UP \
  __CPROVER_requires(v_this == g_clo && g_clo->f0 == g_cntp && *g_cntp == g_cnt0 && g_cnt0 < UINT64_MAX) __CPROVER_assigns(*g_cntp) \
  __CPROVER_ensures(__CPROVER_return_value == g_cnt0 && *g_cntp == g_cnt0 + 1)
#define CONTRACT_CLO_DOWN \
  __CPROVER_requires(v_this == g_clo2 && g_clo2->f0 == g_cntp && *g_cntp == g_cnt0 && g_cnt0 < UINT64_MAX) __CPROVER_assigns(*g_cntp) \
  __CPROVER_ensures(__CPROVER_return_value == g_cnt0 && *g_cntp == g_cnt0 + 1)
