/* Unit mtbdd_rc (DESIGN.md 5-C18, 5-C17 hash-consing): lifetime functions of src/mtbdd/ondriks_mtbdd.hh
   against concrete node memory; the layer-1 functions of mtbdd_node.hh are inlined verbatim; the two
   unique tables are abstract maps observed through one arbitrary WITNESS KEY each (DESIGN.md 3.2). */
#include "common/mtbdd_mem.h"
#define RCP(a) (M_IS_LEAF(a) ? &M_LRC(a) : &M_IRC(a))
#define RC(a)  (*RCP(a))
/* ---- entry-value ghosts (bound by a requires clause) ---- */
uint64_t g_rc0, g_rcl0, g_rch0, g_l0, g_h0, g_v0, g_root0, g_newroot; uint32_t g_data0, g_dflt0;
/* ---- ghosts written by the contract stubs ---- */
uint64_t g_dleaf_calls, g_dint_calls, g_dleaf_arg, g_dint_arg;     /* disposeOf*Node */
uint64_t g_rdel_calls, g_rdel_arg1, g_rdel_arg2;                   /* recursivelyDeleteMTBDDNode */
/* ---- the two unique tables through a witness key ---- */
uint32_t lc_wk; _Bool lc_in, lc_in0; uint64_t lc_val, lc_val0;      /* leafCache_[lc_wk]                    */
uint64_t ic_wl, ic_wh, ic_wv; _Bool ic_in, ic_in0; uint64_t ic_val, ic_val0;  /* internalCache_[(ic_wl,ic_wh,ic_wv)] */
uint64_t g_lc_erases, g_ic_erases, g_lc_inserts, g_ic_inserts; uint32_t g_lc_erase_key; uint64_t g_ic_erase_l, g_ic_erase_h, g_ic_erase_v;
_Bool g_lc_hit, g_ic_hit; uint64_t g_spawn_rc0; LC_PAIR lc_cell; IC_PAIR ic_cell;   /* cells handed out by operator-> of the table iterators */
#define IC_WKEY(l,h,v) ((l) == ic_wl && (h) == ic_wh && (v) == ic_wv)
#define GHOST_ZERO (g_dleaf_calls == 0 && g_dint_calls == 0 && g_rdel_calls == 0 && g_lc_erases == 0 && g_ic_erases == 0 && g_lc_inserts == 0 && g_ic_inserts == 0)
#define GHOSTS g_dleaf_calls, g_dint_calls, g_dleaf_arg, g_dint_arg, g_rdel_calls, g_rdel_arg1, g_rdel_arg2, lc_in, lc_val, ic_in, ic_val, \
  g_lc_erases, g_ic_erases, g_lc_inserts, g_ic_inserts, g_lc_erase_key, g_ic_erase_l, g_ic_erase_h, g_ic_erase_v, g_lc_hit, g_ic_hit, g_spawn_rc0, lc_cell, ic_cell

/* recursivelyDeleteMTBDDNode(n): counter -1; the node is disposed of (by the function for its kind, exactly once,
   with this node) iff the counter reached 0; otherwise nothing else happens */
#define CONTRACT_RDEL \
  __CPROVER_requires(v_node_coerce != 0 && RC(v_node_coerce) >= 1 && g_rc0 == RC(v_node_coerce) && GHOST_ZERO) \
  __CPROVER_assigns(M_IS_LEAF(v_node_coerce): M_LRC(v_node_coerce); M_IS_INT(v_node_coerce): M_IRC(v_node_coerce); GHOSTS) \
  __CPROVER_frees(M_IS_LEAF(v_node_coerce): M_LEAF(v_node_coerce); M_IS_INT(v_node_coerce): M_INT(v_node_coerce)) \
  __CPROVER_ensures(g_rc0 > 1 ==> (RC(v_node_coerce) == g_rc0 - 1 && g_dleaf_calls == 0 && g_dint_calls == 0)) \
  __CPROVER_ensures((g_rc0 == 1 && M_IS_LEAF(v_node_coerce)) ==> (g_dleaf_calls == 1 && g_dint_calls == 0 && g_dleaf_arg == v_node_coerce)) \
  __CPROVER_ensures((g_rc0 == 1 && M_IS_INT(v_node_coerce)) ==> (g_dint_calls == 1 && g_dleaf_calls == 0 && g_dint_arg == v_node_coerce))

/* disposeOfLeafNode(n): only for an unreferenced, cached leaf; removes exactly its key from the table and frees exactly it */
#define PRE_DLEAF(n) ((n) != 0 && M_IS_LEAF(n) && M_LRC(n) == 0)
#define CONTRACT_DLEAF \
  __CPROVER_requires(PRE_DLEAF(v_node_coerce) && g_data0 == M_DATA(v_node_coerce) && GHOST_ZERO && lc_in0 == lc_in && lc_val0 == lc_val) \
  __CPROVER_requires(g_data0 == lc_wk ==> (lc_in && lc_val == v_node_coerce))       /* hash-consed: the table entry for its value is this node */ \
  __CPROVER_assigns(GHOSTS) __CPROVER_frees(M_LEAF(v_node_coerce)) \
  __CPROVER_ensures(__CPROVER_was_freed(M_LEAF(v_node_coerce))) \
  __CPROVER_ensures(g_lc_erases == 1 && g_lc_erase_key == g_data0 && g_ic_erases == 0) \
  __CPROVER_ensures(g_data0 == lc_wk ==> !lc_in) \
  __CPROVER_ensures(g_data0 != lc_wk ==> (lc_in == lc_in0 && lc_val == lc_val0))

/* disposeOfInternalNode(n): only for an unreferenced, cached node; removes exactly (low,high,var) from the table, releases
   each child slot once (low first), frees exactly n and reads nothing of it afterwards (CBMC's deallocated-object check) */
#define PRE_DINT(n) ((n) != 0 && M_IS_INT(n) && M_IRC(n) == 0)
#define CONTRACT_DINT \
  __CPROVER_requires(PRE_DINT(v_node_coerce) && g_l0 == M_LOW(v_node_coerce) && g_h0 == M_HIGH(v_node_coerce) && g_v0 == M_VAR(v_node_coerce) && GHOST_ZERO && ic_in0 == ic_in && ic_val0 == ic_val) \
  __CPROVER_requires(g_l0 != 0 && g_h0 != 0 && g_l0 != g_h0 && g_rcl0 == RC(g_l0) && g_rch0 == RC(g_h0) && g_rcl0 >= 1 && g_rch0 >= 1)  /* reduced; each child slot is counted (RC) */ \
  __CPROVER_requires(IC_WKEY(g_l0, g_h0, g_v0) ==> (ic_in && ic_val == v_node_coerce)) \
  __CPROVER_assigns(GHOSTS; M_IS_LEAF(g_l0): M_LRC(g_l0); M_IS_INT(g_l0): M_IRC(g_l0); M_IS_LEAF(g_h0): M_LRC(g_h0); M_IS_INT(g_h0): M_IRC(g_h0)) \
  __CPROVER_frees(M_INT(v_node_coerce)) \
  __CPROVER_ensures(__CPROVER_was_freed(M_INT(v_node_coerce))) \
  __CPROVER_ensures(g_ic_erases == 1 && g_ic_erase_l == g_l0 && g_ic_erase_h == g_h0 && g_ic_erase_v == g_v0 && g_lc_erases == 0) \
  __CPROVER_ensures(g_rdel_calls == 2 && g_rdel_arg1 == g_l0 && g_rdel_arg2 == g_h0) \
  __CPROVER_ensures(RC(g_l0) == g_rcl0 - 1 && RC(g_h0) == g_rch0 - 1) \
  __CPROVER_ensures(IC_WKEY(g_l0, g_h0, g_v0) ==> !ic_in) \
  __CPROVER_ensures(!IC_WKEY(g_l0, g_h0, g_v0) ==> (ic_in == ic_in0 && ic_val == ic_val0))

/* deleteMTBDD / ~OndriksMTBDD: the root is released exactly once and the handle is nulled */
#define CONTRACT_DELM \
  __CPROVER_requires(g_root0 == v_this->f0.f0 && GHOST_ZERO && (g_root0 != 0 ==> (g_rc0 == RC(g_root0) && g_rc0 >= 1))) \
  __CPROVER_assigns(v_this->f0.f0, GHOSTS; (g_root0 != 0 && M_IS_LEAF(g_root0)): M_LRC(g_root0); (g_root0 != 0 && M_IS_INT(g_root0)): M_IRC(g_root0)) \
  __CPROVER_ensures(v_this->f0.f0 == 0) \
  __CPROVER_ensures(g_root0 != 0 ==> (g_rdel_calls == 1 && g_rdel_arg1 == g_root0 && RC(g_root0) == g_rc0 - 1)) \
  __CPROVER_ensures(g_root0 == 0 ==> g_rdel_calls == 0)
#define CONTRACT_DTOR CONTRACT_DELM

/* copy constructor: one new handle, one increment */
#define CONTRACT_CCTOR \
  __CPROVER_requires(g_root0 == v_mtbdd->f0.f0 && g_root0 != 0 && g_rc0 == RC(g_root0) && g_rc0 < UINT64_MAX && g_dflt0 == v_mtbdd->f1) \
  __CPROVER_assigns(v_this->f0.f0, v_this->f1; M_IS_LEAF(g_root0): M_LRC(g_root0); M_IS_INT(g_root0): M_IRC(g_root0)) \
  __CPROVER_ensures(v_this->f0.f0 == g_root0 && v_this->f1 == g_dflt0 && RC(g_root0) == g_rc0 + 1)
/* OndriksMTBDD(value): the leaf for the value, one increment */
#define CONTRACT_VCTOR \
  __CPROVER_requires(g_dflt0 == *v_value) \
  __CPROVER_assigns(v_this->f0.f0, v_this->f1, g_newroot, g_spawn_rc0) \
  __CPROVER_ensures(v_this->f0.f0 == g_newroot && g_newroot != 0 && M_IS_LEAF(g_newroot) && M_DATA(g_newroot) == g_dflt0 && v_this->f1 == g_dflt0 && M_LRC(g_newroot) == g_spawn_rc0 + 1)
/* private OndriksMTBDD(root, default): adopts a reference that the caller has already counted: no counter is touched */
#define CONTRACT_RCTOR \
  __CPROVER_requires(v_root_coerce != 0 && g_dflt0 == *v_defaultValue) \
  __CPROVER_assigns(v_this->f0.f0, v_this->f1) \
  __CPROVER_ensures(v_this->f0.f0 == v_root_coerce && v_this->f1 == g_dflt0)
/* operator=: self-assignment changes nothing; otherwise the old root is released once and the new one counted once */
#define CONTRACT_ASSIGN \
  __CPROVER_requires(g_root0 == v_this->f0.f0 && g_root0 != 0 && g_rc0 == RC(g_root0) && g_rc0 >= 1 && GHOST_ZERO) \
  __CPROVER_requires(g_newroot == v_mtbdd->f0.f0 && g_newroot != 0 && g_rcl0 == RC(g_newroot) && g_rcl0 >= 1 && g_rcl0 < UINT64_MAX && g_dflt0 == v_mtbdd->f1) \
  __CPROVER_requires(v_this == v_mtbdd || g_root0 != g_newroot || g_rc0 >= 2)   /* two distinct handles on one root: both are counted (RC) */ \
  __CPROVER_assigns(v_this->f0.f0, v_this->f1, GHOSTS; M_IS_LEAF(g_root0): M_LRC(g_root0); M_IS_INT(g_root0): M_IRC(g_root0); M_IS_LEAF(g_newroot): M_LRC(g_newroot); M_IS_INT(g_newroot): M_IRC(g_newroot)) \
  __CPROVER_ensures(__CPROVER_return_value == v_this && v_this->f0.f0 == g_newroot && v_this->f1 == g_dflt0) \
  __CPROVER_ensures(v_this == v_mtbdd ==> (g_rdel_calls == 0 && RC(g_root0) == g_rc0)) \
  __CPROVER_ensures((v_this != v_mtbdd && g_root0 != g_newroot) ==> (g_rdel_calls == 1 && g_rdel_arg1 == g_root0 && RC(g_root0) == g_rc0 - 1 && RC(g_newroot) == g_rcl0 + 1)) \
  __CPROVER_ensures((v_this != v_mtbdd && g_root0 == g_newroot) ==> (g_rdel_calls == 1 && g_rdel_arg1 == g_root0 && RC(g_root0) == g_rc0))

/* spawnLeaf(d): the leaf for d; the same node for the same value (hash-consed); a new node is entered into the table
   with reference count 0; entries for other values are untouched */
#define POST_SPAWN_LEAF(r, d) ((r) != 0 && M_IS_LEAF(r) && M_DATA(r) == (d))
#define CONTRACT_SPAWN_LEAF \
  __CPROVER_requires(g_data0 == *v_data && GHOST_ZERO && lc_in0 == lc_in && lc_val0 == lc_val) \
  __CPROVER_requires(lc_in ==> POST_SPAWN_LEAF(lc_val, lc_wk)) \
  __CPROVER_assigns(GHOSTS) \
  __CPROVER_ensures(POST_SPAWN_LEAF(__CPROVER_return_value, g_data0)) \
  __CPROVER_ensures((g_data0 == lc_wk && lc_in0) ==> (__CPROVER_return_value == lc_val0 && lc_in && lc_val == lc_val0 && g_lc_inserts == 0)) \
  __CPROVER_ensures((g_data0 == lc_wk && !lc_in0) ==> (lc_in && lc_val == __CPROVER_return_value && g_lc_inserts == 1 && M_LRC(__CPROVER_return_value) == 0)) \
  __CPROVER_ensures(g_data0 != lc_wk ==> (lc_in == lc_in0 && lc_val == lc_val0)) \
  __CPROVER_ensures(g_lc_hit ==> g_lc_inserts == 0) \
  __CPROVER_ensures(!g_lc_hit ==> (g_lc_inserts == 1 && M_LRC(__CPROVER_return_value) == 0)) \
  __CPROVER_ensures(g_ic_inserts == 0 && g_lc_erases == 0 && g_ic_erases == 0)

/* spawnInternal(l,h,v): the node (l,h,v); the same node for the same triple; a new node is entered into the table with
   reference count 0 and takes one reference on each child; a hit changes no counter; other entries untouched */
#define POST_SPAWN_INT(r, l, h, v) ((r) != 0 && M_IS_INT(r) && M_LOW(r) == (l) && M_HIGH(r) == (h) && M_VAR(r) == (v))
#define CONTRACT_SPAWN_INT \
  __CPROVER_requires(g_l0 == v_low_coerce && g_h0 == v_high_coerce && g_v0 == *v_var && g_l0 != 0 && g_h0 != 0 && g_l0 != g_h0) /* reduced: callers never ask for low == high */ \
  __CPROVER_requires(g_rcl0 == RC(g_l0) && g_rch0 == RC(g_h0) && g_rcl0 < UINT64_MAX && g_rch0 < UINT64_MAX && GHOST_ZERO && ic_in0 == ic_in && ic_val0 == ic_val) \
  __CPROVER_requires(ic_in ==> POST_SPAWN_INT(ic_val, ic_wl, ic_wh, ic_wv)) \
  __CPROVER_assigns(GHOSTS; M_IS_LEAF(g_l0): M_LRC(g_l0); M_IS_INT(g_l0): M_IRC(g_l0); M_IS_LEAF(g_h0): M_LRC(g_h0); M_IS_INT(g_h0): M_IRC(g_h0)) \
  __CPROVER_ensures(POST_SPAWN_INT(__CPROVER_return_value, g_l0, g_h0, g_v0)) \
  __CPROVER_ensures((IC_WKEY(g_l0, g_h0, g_v0) && ic_in0) ==> (__CPROVER_return_value == ic_val0 && ic_in && ic_val == ic_val0 && g_ic_hit)) \
  __CPROVER_ensures((IC_WKEY(g_l0, g_h0, g_v0) && !ic_in0) ==> (ic_in && ic_val == __CPROVER_return_value && !g_ic_hit)) \
  __CPROVER_ensures(!IC_WKEY(g_l0, g_h0, g_v0) ==> (ic_in == ic_in0 && ic_val == ic_val0)) \
  __CPROVER_ensures(g_ic_hit ==> (g_ic_inserts == 0 && RC(g_l0) == g_rcl0 && RC(g_h0) == g_rch0)) \
  __CPROVER_ensures(!g_ic_hit ==> (g_ic_inserts == 1 && M_IRC(__CPROVER_return_value) == 0 && RC(g_l0) == g_rcl0 + 1 && RC(g_h0) == g_rch0 + 1)) \
  __CPROVER_ensures(g_lc_inserts == 0 && g_lc_erases == 0 && g_ic_erases == 0)

/* operator== / != : equal exactly when the roots are the same node (canonicity lemma L17 turns this into "same function") */
#define CONTRACT_MEQ __CPROVER_requires(v_this->f0.f0 != 0 && v_rhs->f0.f0 != 0) __CPROVER_assigns() __CPROVER_ensures(__CPROVER_return_value == (v_this->f0.f0 == v_rhs->f0.f0))
#define CONTRACT_MNE __CPROVER_requires(v_this->f0.f0 != 0 && v_rhs->f0.f0 != 0) __CPROVER_assigns() __CPROVER_ensures(__CPROVER_return_value == (v_this->f0.f0 != v_rhs->f0.f0))
