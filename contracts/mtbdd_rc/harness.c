/* harnesses and contract stubs of unit mtbdd_rc */
M_MK_NODE_DEF
#define CANARY(n) __CPROVER_assert(0, "canary: " n " reaches the end (must FAIL)")
_Bool nondet_bool(void);
static uint64_t mk_leaf(uint32_t d) { LF* l = malloc(sizeof *l); __CPROVER_assume(l != 0); uint64_t r; l->f0 = d; l->f1 = r; return (uint64_t)l | 1; }
static uint64_t mk_int(uint64_t lo, uint64_t hi, uint64_t v) { IN* n = malloc(sizeof *n); __CPROVER_assume(n != 0); uint64_t r; n->f0.f0 = lo; n->f1.f0 = hi; n->f2 = v; n->f3 = r; return (uint64_t)n; }
#define LC_G ((LC_MAP*)&G__ZN4VATA8MTBDDPkg12OndriksMTBDDIjE10leafCache_E)
#define IC_G ((IC_MAP*)&G__ZN4VATA8MTBDDPkg12OndriksMTBDDIjE14internalCache_E)
#define TOKEN(T) ((T)(uintptr_t)8)

/* ================= contract stubs of libvata functions (used where the harness defines STUB_x) ================= */
#ifdef STUB_DLEAF
void DLEAF(uint64_t n) { __CPROVER_assert(PRE_DLEAF(n), "C18 precondition of disposeOfLeafNode: leaf with reference count 0"); g_dleaf_calls++; g_dleaf_arg = n; free(M_LEAF(n)); }
#endif
#ifdef STUB_DINT
void DINT(uint64_t n) { __CPROVER_assert(PRE_DINT(n), "C18 precondition of disposeOfInternalNode: internal node with reference count 0"); g_dint_calls++; g_dint_arg = n; free(M_INT(n)); }
#endif
#ifdef STUB_RDEL
void RDEL(uint64_t n) { __CPROVER_assert(n != 0 && RC(n) >= 1, "C18 precondition of recursivelyDeleteMTBDDNode: the released reference is counted");
  if (g_rdel_calls == 0) g_rdel_arg1 = n; else g_rdel_arg2 = n; g_rdel_calls++; RC(n) = RC(n) - 1; }
#endif
#ifdef STUB_SPAWN_LEAF
uint64_t SPAWN_LEAF(uint32_t* d) { uint64_t r = mk_leaf(*d); __CPROVER_assume(M_LRC(r) < UINT64_MAX); g_spawn_rc0 = M_LRC(r); g_newroot = r; return r; }
#endif

/* ================= the two unique tables: witness-key model of std::unordered_map (assumed) ================= */

LC_HN LC_FIND(LC_MAP* m, uint32_t* k) { __CPROVER_assert(m == LC_G, "leaf table"); _Bool hit;
  if (*k == lc_wk) { hit = lc_in; if (hit) { lc_cell.f0 = *k; lc_cell.f1.f0 = lc_val; } }
  else { hit = nondet_bool(); if (hit) { lc_cell.f0 = *k; lc_cell.f1.f0 = mk_leaf(*k); } }   /* entry invariant: a cached leaf carries its key */
  g_lc_hit = hit; return hit ? TOKEN(LC_HN) : (LC_HN)0; }
LC_HN LC_END(LC_MAP* m) { return (LC_HN)0; }
LC_PAIR* LC_ARROW(LC_CIT* it) { __CPROVER_assert(it->f0.f0 != 0, "-> on a dereferenceable table iterator"); return &lc_cell; }
LC_INSRET LC_INSERT(LC_MAP* m, LC_INSARG* kv) { __CPROVER_assert(m == LC_G, "leaf table");
  __CPROVER_assert(POST_SPAWN_LEAF(kv->f1.f0, kv->f0), "C17 hash-consing: a leaf entered into the table carries its key");
  __CPROVER_assert(!g_lc_hit, "C17 hash-consing: insert only after an unsuccessful find");
  if (kv->f0 == lc_wk) { lc_in = 1; lc_val = kv->f1.f0; } g_lc_inserts++; LC_INSRET r; r.f0 = TOKEN(LC_HN); r.f1 = 1; return r; }
uint64_t LC_ERASE(LC_MAP* m, uint32_t* k) { __CPROVER_assert(m == LC_G, "leaf table"); uint64_t r;
  if (*k == lc_wk) { r = lc_in ? 1 : 0; lc_in = 0; } else { r = nondet_bool() ? 1 : 0; } g_lc_erases++; g_lc_erase_key = *k; return r; }

IC_HN IC_FIND(IC_MAP* m, TRI* k) { __CPROVER_assert(m == IC_G, "internal-node table"); _Bool hit;
  if (IC_WKEY(k->f0.f0, k->f1.f0, k->f2)) { hit = ic_in; if (hit) { ic_cell.f0 = *k; ic_cell.f1.f0 = ic_val; } }
  else { hit = nondet_bool(); if (hit) { ic_cell.f0 = *k; ic_cell.f1.f0 = mk_int(k->f0.f0, k->f1.f0, k->f2); } }
  g_ic_hit = hit; return hit ? TOKEN(IC_HN) : (IC_HN)0; }
IC_HN IC_END(IC_MAP* m) { return (IC_HN)0; }
IC_PAIR* IC_ARROW(IC_CIT* it) { __CPROVER_assert(it->f0.f0 != 0, "-> on a dereferenceable table iterator"); return &ic_cell; }
IC_INSRET IC_INSERT(IC_MAP* m, IC_INSARG* kv) { __CPROVER_assert(m == IC_G, "internal-node table");
  __CPROVER_assert(POST_SPAWN_INT(kv->f1.f0, kv->f0.f0.f0, kv->f0.f1.f0, kv->f0.f2), "C17 hash-consing: a node entered into the table carries its key (low, high, var)");
  __CPROVER_assert(!g_ic_hit, "C17 hash-consing: insert only after an unsuccessful find");
  if (IC_WKEY(kv->f0.f0.f0, kv->f0.f1.f0, kv->f0.f2)) { ic_in = 1; ic_val = kv->f1.f0; } g_ic_inserts++; IC_INSRET r; r.f0 = TOKEN(IC_HN); r.f1 = 1; return r; }
uint64_t IC_ERASE(IC_MAP* m, TRI* k) { __CPROVER_assert(m == IC_G, "internal-node table"); uint64_t r;
  if (IC_WKEY(k->f0.f0, k->f1.f0, k->f2)) { r = ic_in ? 1 : 0; ic_in = 0; } else { r = nondet_bool() ? 1 : 0; }
  g_ic_erases++; g_ic_erase_l = k->f0.f0; g_ic_erase_h = k->f1.f0; g_ic_erase_v = k->f2; return r; }

/* ================= harnesses ================= */
static void zero_ghosts(void) { g_dleaf_calls = g_dint_calls = g_rdel_calls = g_lc_erases = g_ic_erases = g_lc_inserts = g_ic_inserts = 0; }
static void witness_tables(void) {   /* arbitrary table state at the witness keys, satisfying the entry invariant */
  if (lc_in) lc_val = mk_leaf(lc_wk);
  if (ic_in) ic_val = mk_int(ic_wl, ic_wh, ic_wv);
  lc_in0 = lc_in; lc_val0 = lc_val; ic_in0 = ic_in; ic_val0 = ic_val; }
#ifdef HARNESS_h_RDEL
void h_RDEL(void) { uint64_t n = mk_node(); zero_ghosts(); g_rc0 = RC(n); RDEL(n); CANARY("h_RDEL"); }
#endif
#ifdef HARNESS_h_DLEAF
void h_DLEAF(void) { uint32_t d; uint64_t n = mk_leaf(d); zero_ghosts(); witness_tables(); _Bool isw; if (isw) { lc_wk = d; lc_in = 1; lc_val = n; lc_in0 = 1; lc_val0 = n; }
  g_data0 = d; DLEAF(n); CANARY("h_DLEAF"); }
#endif
#ifdef HARNESS_h_DINT
void h_DINT(void) { uint64_t l = mk_node(), h = mk_node(), v; uint64_t n = mk_int(l, h, v); zero_ghosts(); witness_tables();
  _Bool isw; if (isw) { ic_wl = l; ic_wh = h; ic_wv = v; ic_in = 1; ic_val = n; ic_in0 = 1; ic_val0 = n; }
  g_l0 = l; g_h0 = h; g_v0 = v; g_rcl0 = RC(l); g_rch0 = RC(h); DINT(n); CANARY("h_DINT"); }
#endif
#if defined(HARNESS_h_DELM) || defined(HARNESS_h_DTOR)
static MT* mk_handle(void) { MT* m = malloc(sizeof *m); __CPROVER_assume(m != 0); _Bool null; m->f0.f0 = null ? 0 : mk_node(); uint32_t d; m->f1 = d; return m; }
void h_DELM(void) { MT* m = mk_handle(); zero_ghosts(); g_root0 = m->f0.f0; if (g_root0) g_rc0 = RC(g_root0); DELM(m); CANARY("h_DELM"); }
void h_DTOR(void) { MT* m = mk_handle(); zero_ghosts(); g_root0 = m->f0.f0; if (g_root0) g_rc0 = RC(g_root0); DTOR(m); CANARY("h_DTOR"); }
#endif
#ifdef HARNESS_h_CCTOR
void h_CCTOR(void) { MT* s = malloc(sizeof *s); MT* t = malloc(sizeof *t); __CPROVER_assume(s && t); s->f0.f0 = mk_node(); uint32_t d; s->f1 = d;
  g_root0 = s->f0.f0; g_rc0 = RC(g_root0); g_dflt0 = d; CCTOR(t, s); CANARY("h_CCTOR"); }
#endif
#ifdef HARNESS_h_VCTOR
void h_VCTOR(void) { MT* t = malloc(sizeof *t); __CPROVER_assume(t != 0); uint32_t d; g_dflt0 = d; VCTOR(t, &d); CANARY("h_VCTOR"); }
#endif
#ifdef HARNESS_h_RCTOR
void h_RCTOR(void) { MT* t = malloc(sizeof *t); __CPROVER_assume(t != 0); uint32_t d; g_dflt0 = d; uint64_t r = mk_node(); RCTOR(t, r, &d); CANARY("h_RCTOR"); }
#endif
#ifdef HARNESS_h_ASSIGN
void h_ASSIGN(void) { MT* s = malloc(sizeof *s); MT* t = malloc(sizeof *t); __CPROVER_assume(s && t); uint32_t d1, d2; s->f1 = d1; t->f1 = d2;
  s->f0.f0 = mk_node(); _Bool same_root, same_handle; t->f0.f0 = same_root ? s->f0.f0 : mk_node(); if (same_handle) t = s;
  zero_ghosts(); g_root0 = t->f0.f0; g_rc0 = RC(g_root0); g_newroot = s->f0.f0; g_rcl0 = RC(g_newroot); g_dflt0 = s->f1; ASSIGN(t, s); CANARY("h_ASSIGN"); }
#endif
#ifdef HARNESS_h_SPAWN_LEAF
void h_SPAWN_LEAF(void) { uint32_t d; zero_ghosts(); witness_tables(); g_data0 = d; SPAWN_LEAF(&d); CANARY("h_SPAWN_LEAF"); }
#endif
#ifdef HARNESS_h_SPAWN_INT
void h_SPAWN_INT(void) { uint64_t l = mk_node(), h = mk_node(), v; zero_ghosts(); witness_tables();
  g_l0 = l; g_h0 = h; g_v0 = v; g_rcl0 = RC(l); g_rch0 = RC(h); SPAWN_INT(l, h, &v); CANARY("h_SPAWN_INT"); }
#endif
#if defined(HARNESS_h_MEQ) || defined(HARNESS_h_MNE)
void h_MEQ(void) { MT a, b; MEQ(&a, &b); CANARY("h_MEQ"); }
void h_MNE(void) { MT a, b; MNE(&a, &b); CANARY("h_MNE"); }
#endif
