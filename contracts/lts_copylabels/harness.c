#define CANARY(n) __CPROVER_assert(0, "canary: " n " reaches the end (must FAIL)")
_Bool nondet_bool(void); uint64_t nondet_u64(void);
#define TOK ((void*)(uintptr_t)8)
#define MAYBE (nondet_bool() ? TOK : (void*)0)
#define TOKW ((uint64_t*)(uintptr_t)16)     /* the bit of rowMask for the witness row */
#define TOKO ((uint64_t*)(uintptr_t)24)     /* any other bit */
uint64_t __CPROVER_uninterpreted_LM_FIRST(uint64_t label); uint64_t __CPROVER_uninterpreted_LM_SECOND(uint64_t label);
/* ---- phase 1: the labels of the inset and their row ranges ---- */
void RNGS_CTOR(void* v) { g_rng_cov = 0; g_max_end = 0; } void RNGS_DTOR(void* v) { }
void* SS_BEGIN(void* s) { __CPROVER_assert(s == g_labels, "traversal of the label set passed in"); seen_l = 0; return has_wl ? TOK : MAYBE; }
void* SS_END(void* s) { return (void*)0; }
_Bool SSI_NE(void* a, void* b) { return ((SSI*)a)->f0 != ((SSI*)b)->f0; }
uint64_t* SSI_DEREF(void* it_) { SSI* it = (SSI*)it_; __CPROVER_assert(it->f0 != 0, "no dereference of an end iterator"); cur_l = has_wl && nondet_bool() && !seen_l; if (cur_l) seen_l = 1;
  cell_label = nondet_u64(); if (cur_l) cell_label = wl; else __CPROVER_assume(!has_wl || cell_label != wl); return &cell_label; }
void* SSI_INC(void* it_) { SSI* it = (SSI*)it_; it->f0 = MAYBE; __CPROVER_assume(it->f0 != 0 || !has_wl || seen_l); return it; }
uint64_t ROWS_SIZE(void* v) { __CPROVER_assert(v == (void*)&g_cnt->f5, "size of the source counter's rows"); return g_N; }
void* LMAP_AT(void* v, uint64_t l) { __CPROVER_assert(v == g_lmap, "labelMap_ of this counter"); cell_lm.f0 = __CPROVER_uninterpreted_LM_FIRST(l); cell_lm.f1 = __CPROVER_uninterpreted_LM_SECOND(l); return &cell_lm; }
MKPAIR_RET MKPAIR(uint64_t* x, uint64_t* y) { MKPAIR_RET r; r.f0 = *x; r.f1 = *y; return r; }
void RNGS_PUSH(void* v, void* p_) { PAIRUU* p = (PAIRUU*)p_; __CPROVER_assert(p->f1 <= g_N, "C20: every range ends within the source counter's rows");
  if (p->f0 <= wi && wi < p->f1) g_rng_cov = 1; if (p->f1 > g_max_end) g_max_end = p->f1; }
/* ---- resize and the row mask ---- */
void ROWS_RESIZE(void* v, uint64_t n) { __CPROVER_assert(v == (void*)&g_this->f5 && n >= g_max_end, "C20: this counter's rows are resized to cover every range"); g_sent = n; g_resized = 1; }
void ALB_CTOR(void* a) { } void ALB_DTOR(void* a) { } void VB_DTOR(void* v) { }
void VB_CTOR(void* v, uint64_t n, uint8_t* val, void* a) { __CPROVER_assert(n == g_sent && g_resized, "rowMask has one bit per row"); mask_w = (*val != 0); }
BITREF_RET VB_AT(void* v, uint64_t i) { __CPROVER_assert(i < g_sent, "C20: rowMask is indexed within its size"); BITREF_RET r; r.f0 = (i == wi) ? TOKW : TOKO; r.f1 = 1; return r; }
_Bool BITREF_BOOL(void* r) { return ((BITREF*)r)->f0 == TOKW ? mask_w : nondet_bool(); }
void* BITREF_ASSIGN(void* r, _Bool b) { if (((BITREF*)r)->f0 == TOKW) mask_w = b; return r; }
/* ---- phase 2: the ranges (the one covering wi handed out exactly once iff there is one) and the rows ---- */
void* RNGS_BEGIN(void* v) { seen_r = 0; return g_rng_cov ? TOK : MAYBE; }
void* RNGS_END(void* v) { return (void*)0; }
void* RNI_DEREF(void* it_) { RNI* it = (RNI*)it_; __CPROVER_assert(it->f0 != 0, "no dereference of an end iterator"); cur_r = g_rng_cov && nondet_bool() && !seen_r; if (cur_r) seen_r = 1;
  cell_rng.f0 = nondet_u64(); cell_rng.f1 = nondet_u64(); __CPROVER_assume(cell_rng.f1 <= g_N && cell_rng.f1 <= g_sent);   /* store invariant of `ranges`: asserted at every push_back and at resize */
  if (cur_r) __CPROVER_assume(cell_rng.f0 <= wi && wi < cell_rng.f1); return &cell_rng; }
void* RNI_INC(void* it_) { RNI* it = (RNI*)it_; it->f0 = MAYBE; __CPROVER_assume(it->f0 != 0 || !g_rng_cov || seen_r); return it; }
void* ROW_AT(void* v, uint64_t i) {
  if (v == (void*)&g_cnt->f5) { __CPROVER_assert(i < g_N, "C20: the source counter's rows are indexed within their size"); if (i == wi) return row_src;
    scr_src->f0 = nondet_u64(); scr_src->f1 = nondet_bool() ? g_scr_arr : (uint64_t*)0; return scr_src; }
  __CPROVER_assert(v == (void*)&g_this->f5 && g_resized && i < g_sent, "C20: this counter's rows are indexed within their (new) size"); return i == wi ? row_dst : scr_dst; }
uint64_t* VERIF_idx_hook(uint64_t* base, uint64_t i) { __CPROVER_assert(base != 0 && i == g_RS, "only the reference-count word (index rowSize_) of a row array is touched");
  if (base == g_arr0) return &c0_rc; __CPROVER_assert(base == g_scr_arr, "a known row array"); c_scratch = nondet_u64(); return &c_scratch; }
void h_COPYL(void) { g_this = malloc(sizeof *g_this); g_cnt = malloc(sizeof *g_cnt); g_labels = malloc(16); g_lmap = malloc(24); uint64_t* rs = malloc(8);
  row_src = malloc(sizeof *row_src); row_dst = malloc(sizeof *row_dst); scr_src = malloc(sizeof *scr_src); scr_dst = malloc(sizeof *scr_dst); uint64_t* arr = malloc(1); g_scr_arr = malloc(1);
  __CPROVER_assume(g_this && g_cnt && g_labels && g_lmap && rs && row_src && row_dst && scr_src && scr_dst && arr && g_scr_arr);
  g_this->f2 = g_lmap; g_this->f3 = rs; g_RS = *rs;
  f_w = __CPROVER_uninterpreted_LM_FIRST(wl); s_w = __CPROVER_uninterpreted_LM_SECOND(wl);
  g_arr0 = nondet_bool() ? arr : (uint64_t*)0; row_src->f1 = g_arr0; g_master0 = row_src->f0; g_rc0 = c0_rc; __CPROVER_assume(g_rc0 < UINT64_MAX);
  row_dst->f1 = 0; g_resized = 0; mask_w = 0;
  COPYL(g_this, g_labels, g_cnt); CANARY("h_COPYL"); }
