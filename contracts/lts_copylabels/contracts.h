/* Unit lts_copylabels (DESIGN.md 5-C16, 11): SharedCounter::copyLabels(labels, cnt) -- a freshly split block inherits, for every label in its
   inset, the counter rows of the block it was split from, SHARING the row arrays (reference count + 1) instead of copying them.
   Witness row index wi, witness label wl (in `labels` iff has_wl) with labelMap_[wl] = [f_w, s_w):
     COV  :=  has_wl && f_w <= wi < min(cnt.data_.size(), s_w)          "row wi belongs to a label of the inset"
     COV  ==>  this->data_[wi] = { cnt.data_[wi].master_, cnt.data_[wi].data_ }  and, if that row has an array, its reference count went up by
               EXACTLY one (rowMask: a row covered by several ranges is shared once);
     a row that was not copied is untouched; the source counter's rows are never written (only the reference-count word of shared arrays);
     every index used on cnt.data_, this->data_ and rowMask is within bounds (C20). */
SC *g_this, *g_cnt; void *g_labels, *g_lmap;
uint64_t wi, wl, f_w, s_w, g_N, g_RS; _Bool has_wl;
_Bool seen_l, cur_l, g_rng_cov, g_resized, seen_r, cur_r, mask_w; uint64_t cell_label, g_max_end, g_sent;
PAIRUU cell_lm, cell_rng;
ROW *row_src, *row_dst, *scr_src, *scr_dst; uint64_t g_master0, g_rc0, c0_rc, c_scratch; uint64_t *g_arr0, *g_scr_arr;
#define COV       (has_wl && f_w <= wi && wi < g_N && wi < s_w)
#define COPIED    (row_dst->f0 == g_master0 && row_dst->f1 == g_arr0 && (g_arr0 != 0 ==> c0_rc == g_rc0 + 1))
#define UNTOUCHED (row_dst->f1 == 0 && (g_arr0 != 0 ==> c0_rc == g_rc0))
#define SRC_KEPT  (row_src->f0 == g_master0 && row_src->f1 == g_arr0)
#define STATE     ((mask_w ==> COPIED) && (!mask_w ==> UNTOUCHED) && SRC_KEPT)
#define G_ROWS    mask_w, row_dst->f0, row_dst->f1, scr_dst->f0, scr_dst->f1, scr_src->f0, scr_src->f1, c0_rc, c_scratch
#define G_RANGES  G_ROWS, seen_r, cur_r, cell_rng
#define G_LABELS  seen_l, cur_l, cell_label, cell_lm, g_rng_cov, g_max_end
#define CONTRACT_COPYL \
  __CPROVER_requires(v_this == g_this && v_cnt == g_cnt && v_labels == g_labels && !g_resized && !mask_w) \
  __CPROVER_requires(row_dst->f1 == 0 && SRC_KEPT && (g_arr0 != 0 ==> (c0_rc == g_rc0 && g_rc0 < UINT64_MAX))) \
  __CPROVER_assigns(G_RANGES, G_LABELS, g_resized, g_sent) \
  __CPROVER_ensures(STATE) \
  __CPROVER_ensures(COV ==> mask_w)
#define LOOPASG_COPYL__L_LABELS , G_LABELS
#define LOOP_COPYL__L_LABELS \
  __CPROVER_loop_invariant(END_COPYL__L_LABELS.f0 == 0 && g_max_end <= v_sent_slot && g_max_end <= g_N) \
  __CPROVER_loop_invariant((has_wl && BEGIN_COPYL__L_LABELS.f0 == 0) ==> seen_l) \
  __CPROVER_loop_invariant((has_wl && seen_l && COV) ==> g_rng_cov)
#define LOOPASG_COPYL__L_RANGES , G_RANGES
#define LOOP_COPYL__L_RANGES \
  __CPROVER_loop_invariant(END_COPYL__L_RANGES.f0 == 0 && g_resized && STATE) \
  __CPROVER_loop_invariant((g_rng_cov && BEGIN_COPYL__L_RANGES.f0 == 0) ==> seen_r) \
  __CPROVER_loop_invariant((g_rng_cov && seen_r) ==> mask_w)
#define LOOPASG_COPYL__L_ROWS , G_ROWS
#define LOOP_COPYL__L_ROWS \
  __CPROVER_loop_invariant(STATE) \
  __CPROVER_loop_invariant((cur_r && v_i_slot > wi) ==> mask_w) \
  __CPROVER_loop_invariant((g_rng_cov && !cur_r && seen_r) ==> mask_w)
