/* Unit ta_unreach (DESIGN.md 5-C03): ExplicitTreeAutCore::RemoveUnreachableStates.
   Tracked states: the WITNESS EDGE wp -> wc (wc is a child in some rule owned by wp) and the WITNESS OWNER wo (a state that owns a
   cluster in the operand iff own_wo).  r_x = "x is in reachableStates", pend_wp = "wp is on the work list".
   (P1) CLOSED:   wp in the computed set  ==>  wc in the computed set            (with "finals are in it": least-fixpoint lemma L-lfp)
   (P5) SOUND:    every state inserted into the computed set is truly reachable (table T_REACH, closure facts unfolded at the rule visited)
   (P2) RESULT:   wo owns a cluster in the result  ==>  wo is in the computed set          -- on EVERY return path (the unchanged-operand
                  shortcut included: it is taken only after a traversal of the operand's owners found all of them in the computed set)
   (P3) COMPLETE: wo in the computed set and owns a cluster in the operand  ==>  it owns that cluster in the result
   (P4) the result's final states are the operand's. */
#include "common/sp_ghost.h"
extern uint8_t T_REACH[__CPROVER_constant_infinity_uint];
uint64_t wp, wc, wo; _Bool fin_wp, fin_wc, fin_wo, own_wo;
_Bool r_wp, r_wc, r_wo, pend_wp;
uint64_t g_q, g_back; _Bool q_is_wp;                 /* the state being processed */
_Bool seen_a, cur_a, seen_b, cur_b, seen_c;          /* witness traversal of the rules of wp: symbol entry / tuple / child position */
_Bool seen_o, cur_o, seen_w; uint64_t g_cur_s;               /* traversal of the computed set */
uint64_t cell_back, cell_child, cell_s; E_CLU cell_clu; SPV cell_tup; E_CMAP cell_cm; AUT* g_this; AUT* g_ret; void* g_local; void* g_resmap;
uint8_t g_ret_kind; _Bool res_has_wo; uint64_t g_fin_assigns; void *g_fa_dst, *g_fa_src; uint64_t g_sets_alive;
uint64_t __CPROVER_uninterpreted_CLOF(uint64_t state);      /* the cluster a state owns in the operand */
#define UG SP_GHOSTS, r_wp, r_wc, r_wo, pend_wp, g_q, g_back, q_is_wp, seen_a, cur_a, seen_b, cur_b, seen_c, seen_o, cur_o, seen_w, g_cur_s, cell_back, cell_child, cell_s, cell_clu, cell_tup, cell_cm, \
  g_local, g_resmap, g_ret_kind, res_has_wo, g_fin_assigns, g_fa_dst, g_fa_src, g_sets_alive
#define RES_OWNS_WO (g_ret_kind == 1 ? own_wo : res_has_wo)
#define CONTRACT_RUS \
  __CPROVER_requires(v_this == g_this && v_agg_result == g_ret && g_ret_kind == 0 && !res_has_wo && g_fin_assigns == 0) \
  __CPROVER_assigns(UG) \
  __CPROVER_ensures(r_wp ==> r_wc) \
  __CPROVER_ensures(RES_OWNS_WO ==> r_wo) \
  __CPROVER_ensures((r_wo && own_wo) ==> RES_OWNS_WO) \
  __CPROVER_ensures(g_ret_kind == 1 || (g_ret_kind == 2 && g_fin_assigns == 1 && g_fa_src == (void*)&g_this->f1))
/* ---- work-list loop: closed except for what is pending ---- */
/* the membership flags of tracked states that happen to be the same state agree */
#define CONS      __CPROVER_loop_invariant((wp != wc || r_wp == r_wc) && (wp != wo || r_wp == r_wo) && (wc != wo || r_wc == r_wo))
#define W_INV     CONS __CPROVER_loop_invariant((r_wp && !pend_wp) ==> r_wc)
#define CARRY     CONS __CPROVER_loop_invariant((!q_is_wp && r_wp && !pend_wp) ==> r_wc) __CPROVER_loop_invariant(T_REACH[g_q] != 0)
#define LOOPASG_RUS__L_WORK , INNER_G, seen_a, cur_a, g_q, g_back, q_is_wp, cell_back
#define INNER_G r_wp, r_wc, r_wo, pend_wp, seen_b, cur_b, seen_c, cell_child, cell_tup, cell_clu
#define LOOP_RUS__L_WORK W_INV
#define LOOPASG_RUS__L_SYMS   , INNER_G, seen_a, cur_a
#define LOOPASG_RUS__L_TUPLES , r_wp, r_wc, r_wo, pend_wp, seen_b, cur_b, seen_c, cell_child, cell_tup
#define LOOPASG_RUS__L_CHILDREN , r_wp, r_wc, r_wo, pend_wp, seen_c, cell_child
#define LOOP_RUS__L_SYMS \
  CARRY __CPROVER_loop_invariant(END_RUS__L_SYMS.f0.f0 == 0) \
  __CPROVER_loop_invariant((q_is_wp && BEGIN_RUS__L_SYMS.f0.f0 == 0) ==> seen_a) \
  __CPROVER_loop_invariant((q_is_wp && seen_a) ==> r_wc)
#define LOOP_RUS__L_TUPLES \
  CARRY __CPROVER_loop_invariant(END_RUS__L_TUPLES.f0 == 0) \
  __CPROVER_loop_invariant((q_is_wp && cur_a && BEGIN_RUS__L_TUPLES.f0 == 0) ==> seen_b) \
  __CPROVER_loop_invariant((q_is_wp && cur_a && seen_b) ==> r_wc) \
  __CPROVER_loop_invariant((q_is_wp && !cur_a && seen_a) ==> r_wc)
#define LOOP_RUS__L_CHILDREN \
  CARRY __CPROVER_loop_invariant(END_RUS__L_CHILDREN.f0 == 0) \
  __CPROVER_loop_invariant((q_is_wp && cur_a && cur_b && BEGIN_RUS__L_CHILDREN.f0 == 0) ==> seen_c) \
  __CPROVER_loop_invariant((q_is_wp && cur_a && cur_b && seen_c) ==> r_wc) \
  __CPROVER_loop_invariant((q_is_wp && cur_a && !cur_b && seen_b) ==> r_wc) \
  __CPROVER_loop_invariant((q_is_wp && !cur_a && seen_a) ==> r_wc)
/* ---- optional translation map: (s, s) for every state of the computed set ---- */
#define LOOPASG_RUS__L_TRANSL , seen_o, cur_o, g_cur_s, cell_s
#define LOOP_RUS__L_TRANSL __CPROVER_loop_invariant(END_RUS__L_TRANSL.f0.f0 == 0)
/* ---- unchanged-operand shortcut: every owner of a cluster in the operand is in the computed set (witness owner wo) ---- */
#define LOOPASG_RUS__L_OWNERS , seen_w, cell_cm
#define LOOP_RUS__L_OWNERS \
  __CPROVER_loop_invariant(END_RUS__L_OWNERS.f0.f0 == 0) \
  __CPROVER_loop_invariant((own_wo && BEGIN_RUS__L_OWNERS.f0.f0 == 0) ==> seen_w) \
  __CPROVER_loop_invariant((own_wo && seen_w && v_allOwnersReachable_slot != 0) ==> r_wo)
/* ---- construction of the result: one cluster per state of the computed set that owns one ---- */
#define LOOPASG_RUS__L_RESULT , seen_o, cur_o, g_cur_s, cell_s, cell_cm, res_has_wo, g_sp_zero, g_sp_zero_obj
#define LOOP_RUS__L_RESULT \
  __CPROVER_loop_invariant(END_RUS__L_RESULT.f0.f0 == 0 && g_resmap == (void*)SP_PTR(&v_result_slot.f2) && g_local == (void*)&v_result_slot) \
  __CPROVER_loop_invariant((r_wo && BEGIN_RUS__L_RESULT.f0.f0 == 0) ==> seen_o) \
  __CPROVER_loop_invariant((r_wo && seen_o && own_wo) ==> res_has_wo) \
  __CPROVER_loop_invariant(res_has_wo ==> r_wo)
