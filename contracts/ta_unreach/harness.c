#include "common/sp_stubs.h"
#define CANARY(n) __CPROVER_assert(0, "canary: " n " reaches the end (must FAIL)")
#define TOK(T) ((void*)(uintptr_t)8)
#define MAYBE(T) (nondet_bool() ? TOK(T) : (void*)0)
#define CLOF(s) __CPROVER_uninterpreted_CLOF(s)
_Bool nondet_bool(void); uint64_t nondet_u64(void);
/* ---- the computed set reachableStates (copy of the final states) and the work list (all of them pending) ---- */
void USET_COPY(void* d, void* s) { __CPROVER_assert(s == (void*)&g_this->f1, "reachableStates starts as the operand's final states"); r_wp = fin_wp; r_wc = fin_wc; r_wo = fin_wo; }
void ALLOC_CTOR(void* a) { } void ALLOC_DTOR(void* a) { }
void VEC_RANGE_CTOR(void* v, void* b, void* e, void* al) { pend_wp = r_wp; }
void VEC_DTOR(void* v) { } void USET_DTOR(void* s) { } void SPA_DTOR(void* s) { }
_Bool VEC_EMPTY(void* v) { _Bool e = nondet_bool(); __CPROVER_assume(!e || !pend_wp); /* a pending state keeps the list non-empty */ return e; }
uint64_t* VEC_BACK(void* v) { uint64_t q = nondet_u64(); __CPROVER_assume(q != wp || pend_wp); __CPROVER_assume(T_REACH[q] != 0); /* store invariant of the work list: asserted on every push */ cell_back = q; g_back = q; return &cell_back; }
void VEC_POP(void* v) { g_q = g_back; q_is_wp = (g_back == wp); if (q_is_wp) pend_wp = 0; }
void VEC_PUSH(void* v, uint64_t* x) { __CPROVER_assert(T_REACH[*x] != 0, "C03 soundness: only reachable states are put on the work list"); if (*x == wp) pend_wp = 1; }
USET_INSRET USET_INSERT(void* s, uint64_t* x) { __CPROVER_assert(T_REACH[*x] != 0, "C03 soundness: only reachable states enter the computed set"); USET_INSRET r; r.f1 = nondet_bool();
  if (*x == wp) { r.f1 = !r_wp; r_wp = 1; } if (*x == wc) { r.f1 = !r_wc; r_wc = 1; } if (*x == wo) { r.f1 = !r_wo; r_wo = 1; } return r; }
/* ---- look-up of the cluster of the state in hand: the witness parent owns one ---- */
void* GLOOKUP(void* map, uint64_t* st) { __CPROVER_assert(map == (void*)SP_PTR(&g_this->f2), "look-up in the operand's cluster map"); if (*st == wp) return (void*)8; return nondet_bool() ? (void*)8 : (void*)0; }
/* ---- the rules of the state in hand: witness traversal (T1-T4) ---- */
void* CLU_BEGIN(void* c) { seen_a = 0; return q_is_wp ? TOK(HNC) : MAYBE(HNC); }
void* CLU_END(void* c) { return (void*)0; }
void* CLU_DEREF(void* it_) { CLI* it = (CLI*)it_; __CPROVER_assert(it->f0.f0 != 0, "no dereference of an end iterator"); cur_a = q_is_wp && nondet_bool() && !seen_a; if (cur_a) seen_a = 1; cell_clu.f1.f0.f0 = (void*)8; return &cell_clu; }
void* CLU_INC(void* it_) { CLI* it = (CLI*)it_; it->f0.f0 = MAYBE(HNC); __CPROVER_assume(it->f0.f0 != 0 || !q_is_wp || seen_a); return it; }
void* TSET_BEGIN(void* t) { seen_b = 0; return (q_is_wp && cur_a) ? TOK(RBN) : MAYBE(RBN); }
void* TSET_END(void* t) { return (void*)0; }
void* RBI_DEREF(void* it_) { RBI* it = (RBI*)it_; __CPROVER_assert(it->f0 != 0, "no dereference of an end iterator"); cur_b = q_is_wp && cur_a && nondet_bool() && !seen_b; if (cur_b) seen_b = 1; cell_tup.f0.f0 = (void*)8; return &cell_tup; }
void* RBI_INC(void* it_) { RBI* it = (RBI*)it_; it->f0 = MAYBE(RBN); __CPROVER_assume(it->f0 != 0 || !(q_is_wp && cur_a) || seen_b); return it; }
uint64_t* TUP_BEGIN(void* v) { seen_c = 0; return (uint64_t*)((q_is_wp && cur_a && cur_b) ? TOK(0) : MAYBE(0)); }
uint64_t* TUP_END(void* v) { return (uint64_t*)0; }
uint64_t* NIT_DEREF(void* it_) { NIT* it = (NIT*)it_; __CPROVER_assert(it->f0 != 0, "no dereference of an end iterator"); _Bool w = q_is_wp && cur_a && cur_b && nondet_bool() && !seen_c; if (w) seen_c = 1;
  cell_child = w ? wc : nondet_u64(); __CPROVER_assume(T_REACH[g_q] == 0 || T_REACH[cell_child] != 0);   /* definition of reachability, unfolded at the rule visited */ return &cell_child; }
void* NIT_INC(void* it_) { NIT* it = (NIT*)it_; it->f0 = (uint64_t*)MAYBE(0); __CPROVER_assume(it->f0 != 0 || !(q_is_wp && cur_a && cur_b) || seen_c); return it; }
/* ---- traversal of the computed set (translation map, result construction): the witness owner is handed out exactly once iff it is in the set ---- */
void* USET_BEGIN(void* s) { seen_o = 0; return r_wo ? TOK(HNU) : MAYBE(HNU); }
void* USET_END(void* s) { return (void*)0; }
uint64_t* USI_DEREF(void* it_) { USI* it = (USI*)it_; __CPROVER_assert(it->f0.f0 != 0, "no dereference of an end iterator"); cur_o = r_wo && nondet_bool() && !seen_o; if (cur_o) seen_o = 1;
  cell_s = nondet_u64(); if (cur_o) cell_s = wo; else __CPROVER_assume(cell_s != wo); g_cur_s = cell_s; return &cell_s; }
void* USI_INC(void* it_) { USI* it = (USI*)it_; it->f0.f0 = MAYBE(HNU); __CPROVER_assume(it->f0.f0 != 0 || !r_wo || seen_o); return it; }
PAIR_SS MKPAIR_SS(uint64_t* a, uint64_t* b) { PAIR_SS p; p.f0 = *a; p.f1 = *b; return p; }
TM_INSRET TM_INSERT(void* m, void* kv) { __CPROVER_assert(((uint64_t*)kv)[0] == g_cur_s && ((uint64_t*)kv)[1] == g_cur_s, "the translation map gets (s, s) for the state under the cursor"); TM_INSRET r; r.f1 = nondet_bool(); return r; }
/* ---- traversal of the operand's cluster owners (unchanged-operand shortcut): wo is handed out exactly once iff it owns a cluster ---- */
void* CMAP_BEGIN(void* m) { __CPROVER_assert(m == (void*)SP_PTR(&g_this->f2), "traversal of the operand's cluster map"); seen_w = 0; return own_wo ? TOK(HNM) : MAYBE(HNM); }
void* CMAP_DEREF(void* it_) { CMI* it = (CMI*)it_; __CPROVER_assert(it->f0.f0 != 0, "no dereference of an end iterator"); _Bool w = own_wo && nondet_bool() && !seen_w; if (w) seen_w = 1;
  cell_cm.f0 = nondet_u64(); if (w) cell_cm.f0 = wo; else __CPROVER_assume(cell_cm.f0 != wo); cell_cm.f1.f0.f0 = (void*)CLOF(cell_cm.f0); return &cell_cm; }
void* CMAP_INC(void* it_) { CMI* it = (CMI*)it_; it->f0.f0 = MAYBE(HNM); __CPROVER_assume(it->f0.f0 != 0 || !own_wo || seen_w); return it; }
uint64_t USET_COUNT(void* s, uint64_t* x) { if (*x == wp) return r_wp; if (*x == wc) return r_wc; if (*x == wo) return r_wo; return nondet_bool(); }
/* ---- the result ---- */
DEF_SP_RAW(SPM_RAW_, SPM, void) DEF_SP_DTOR(SPM_DTOR_, SPM) DEF_SP_MOVEASG(SPM_MOVEASG_, SPM)
void AUT_COPY3(void* d, void* s, _Bool ct, _Bool cf) { __CPROVER_assert(d == (void*)g_ret && s == (void*)g_this && ct && cf, "return *this"); g_ret_kind = 1; }
void AUT_CTOR(void* a, void* cache, void* alph) { g_local = a; void* m0 = malloc(64); __CPROVER_assume(m0 != 0); CONTENT(m0) = 0; SPM_RAW_(&((AUT*)a)->f2, m0); /* transitions_(new map) */ }
void* USET_ASSIGN(void* d, void* s) { __CPROVER_assert(d == (void*)&((AUT*)g_local)->f1, "the result's final states are assigned"); g_fin_assigns++; g_fa_dst = d; g_fa_src = s; return d; }
void MAP_NEW(void* m) { CONTENT(m) = 0; OWNERS(m) = 0; }
void SPM_RAW(void* s, void* raw) { SPM_RAW_((SPM*)s, raw); g_resmap = raw; }
void SPM_DTOR(void* s) { SPM_DTOR_((SPM*)s); }
void* SPM_MOVEASG(void* s, void* r) { return SPM_MOVEASG_((SPM*)s, (SPM*)r); }
void* CMAP_FIND(void* m, uint64_t* s) { __CPROVER_assert(m == (void*)SP_PTR(&g_this->f2), "find in the operand's cluster map"); _Bool hit = (*s == wo) ? own_wo : nondet_bool();
  if (hit) { cell_cm.f0 = *s; cell_cm.f1.f0.f0 = (void*)CLOF(*s); } return hit ? TOK(HNM) : (void*)0; }
void* CMAP_END(void* m) { return (void*)0; }
void* CMAP_ARROW(void* it) { __CPROVER_assert(((void**)it)[0] != 0, "-> on a found cluster-map entry"); return &cell_cm; }
void MKPAIR_SC(void* ret, uint64_t* k, void* spc) { ((PAIR_SC*)ret)->f0 = *k; ((PAIR_SC*)ret)->f1.f0.f0 = ((__typeof__(&cell_cm.f1))spc)->f0.f0; }
void PAIR_SC_DTOR(void* p) { }
CMAP_INSRET CMAP_INSERT(void* m, void* kv) { PAIR_SC* p = (PAIR_SC*)kv; __CPROVER_assert(m == g_resmap, "C03: clusters are inserted into the result's own (new) map");
  __CPROVER_assert(p->f0 == g_cur_s, "C03: only a state of the computed (reachable) set gets a cluster in the result");
  __CPROVER_assert((uint64_t)p->f1.f0.f0 == CLOF(p->f0), "C03: the cluster inserted is the one the state owns in the operand");
  if (p->f0 == wo) res_has_wo = 1; CMAP_INSRET r; r.f1 = 1; return r; }
void AUT_MOVE(void* d, void* s) { __CPROVER_assert(d == (void*)g_ret && s == g_local, "the local result is returned"); g_ret_kind = 2; }
void AUT_DTOR(void* a) { }
void h_RUS(void) { g_this = malloc(sizeof *g_this); g_ret = malloc(sizeof *g_ret); void* m = malloc(64); __CPROVER_assume(g_this && g_ret && m); SP_PTR(&g_this->f2) = m;
  g_ret_kind = 0; res_has_wo = 0; g_fin_assigns = 0;
  /* the tracked states: final ones are reachable by definition */
  __CPROVER_assume(!fin_wp || T_REACH[wp] != 0); __CPROVER_assume(!fin_wc || T_REACH[wc] != 0); __CPROVER_assume(!fin_wo || T_REACH[wo] != 0);
  __CPROVER_assume((wp != wc || fin_wp == fin_wc) && (wp != wo || fin_wp == fin_wo) && (wc != wo || fin_wc == fin_wo));
  void* tm = nondet_bool() ? malloc(8) : (void*)0;
  RUS(g_ret, g_this, tm); CANARY("h_RUS"); }
