#define CANARY(n) __CPROVER_assert(0, "canary: " n " reaches the end (must FAIL)")
void RUSL(void* ret, void* a, void* tm) { g_ok = (a == (void*)g_this && tm == (void*)0 && g_rusl_calls == 0); g_tmp = ret; g_rusl_calls++; }
_Bool USET_EMPTY(void* s) { __CPROVER_assert(g_rusl_calls == 1 && s == (void*)&((AUT*)g_tmp)->f1, "C03: the final states asked are those of the automaton without useless states"); return g_empty; }
void AUT_DTOR(void* a) { __CPROVER_assert(a == g_tmp, "the temporary is destroyed"); g_dtor_calls++; }
_Bool nondet_bool(void);
void h_ILE(void) { g_this = malloc(sizeof *g_this); __CPROVER_assume(g_this); g_rusl_calls = 0; g_dtor_calls = 0; g_empty = nondet_bool(); _Bool r = ILE(g_this); CANARY("h_ILE"); }
