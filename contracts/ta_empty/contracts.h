/* Unit ta_empty (DESIGN.md 5-C03, 11): ExplicitTreeAutCore::IsLangEmpty() = "the automaton left by RemoveUselessStates(*this) has no final state":
   RemoveUselessStates is called once, on *this, without a translation map; the answer is empty() of THAT result's final states (not of *this's);
   the temporary is destroyed.  With the contract of RemoveUselessStates (unit ta_useless, U6: its result's final states are exactly the productive
   final states of *this) this is "true exactly when no final state is productive". */
AUT* g_this; void* g_tmp; uint64_t g_rusl_calls, g_dtor_calls; _Bool g_empty, g_ok;
#define CONTRACT_ILE \
  __CPROVER_requires(v_this == g_this && g_rusl_calls == 0 && g_dtor_calls == 0) \
  __CPROVER_assigns(g_tmp, g_rusl_calls, g_dtor_calls, g_ok) \
  __CPROVER_ensures(g_rusl_calls == 1 && g_dtor_calls == 1 && g_ok && (!__CPROVER_return_value == !g_empty))
