#include "common/sp_stubs.h"
#define CANARY(n) __CPROVER_assert(0, "canary: " n " reaches the end (must FAIL)")
_Bool nondet_bool(void);
void BASE_CTOR(BASE* b) { } void SS_DTOR(SS* s) { }
static void val(void* d, void* s) {
  if (d == (void*)&g_this->f0) { __CPROVER_assert(s == (void*)&g_src->f0, "C11: the final states are copied from the source's final states"); g_fin = 1; }
  else if (d == (void*)&g_this->f1) { __CPROVER_assert(s == (void*)&g_src->f1, "C11: the start states are copied from the source's start states"); g_start = 1; }
  else __CPROVER_assert(0, "C11: only the copy's own state sets are written"); }
void SS_COPY(SS* d, SS* s) { val(d, s); }
SS* SS_ASSIGN(SS* d, SS* s) { val(d, s); return d; }
void SMAP_COPY(SMAP* d, SMAP* s) { __CPROVER_assert(d == (SMAP*)&g_this->f2 && s == (SMAP*)&g_src->f2, "C11: the start symbols are copied from the source's"); g_smap = 1; }
SMAP* SMAP_ASSIGN(SMAP* d, SMAP* s) { __CPROVER_assert(d == (SMAP*)&g_this->f2 && s == (SMAP*)&g_src->f2, "C11: the start symbols are assigned from the source's"); g_smap = 1; return d; }
DEF_SP_COPY(SPM_COPY, SPM)
SPM* SPM_COPYASG(SPM* d, SPM* s) { if (SP_CTRLV(d) != SP_CTRLV(s)) { void* np = (void*)SP_PTR(s); void* nc = (void*)SP_CTRLV(s); if (nc) ((struct GC*)nc)->count++;
    sp_release_((void**)&SP_PTR(d), (void**)&SP_CTRLV(d)); *(void**)&SP_PTR(d) = np; *(void**)&SP_CTRLV(d) = nc; } return d; }
void SPA_COPY(SPA* d, SPA* s) { SP_PTR(d) = SP_PTR(s); SP_CTRLV(d) = SP_CTRLV(s); }
SPA* SPA_COPYASG(SPA* d, SPA* s) { SP_PTR(d) = SP_PTR(s); SP_CTRLV(d) = SP_CTRLV(s); return d; }
static void mk_src(void) { g_src = malloc(sizeof *g_src); g_M = malloc(64); g_cM = malloc(sizeof *g_cM); __CPROVER_assume(g_src && g_M && g_cM);
  *(void**)&SP_PTR(&g_src->f3) = g_M; SP_CTRLV(&g_src->f3) = (void*)g_cM; g_cM->local = 0; g_nM0 = g_cM->count; __CPROVER_assume(g_nM0 >= 1 && g_nM0 < UINT64_MAX); OWNERS(g_M) = g_cM; g_fin = g_start = g_smap = 0; }
void h_FCOPY(void) { mk_src(); g_this = malloc(sizeof *g_this); __CPROVER_assume(g_this); FCOPY(g_this, g_src); CANARY("h_FCOPY"); }
void h_FASSIGN(void) { mk_src();
  if (nondet_bool()) { g_this = g_src; g_old = g_M; g_cOld = g_cM; }
  else { g_this = malloc(sizeof *g_this); __CPROVER_assume(g_this);
    if (nondet_bool()) { g_old = g_M; g_cOld = g_cM; __CPROVER_assume(g_nM0 >= 2); }
    else { g_old = malloc(64); g_cOld = malloc(sizeof *g_cOld); __CPROVER_assume(g_old && g_cOld && g_cOld->count >= 1); g_cOld->local = 0; OWNERS(g_old) = g_cOld; }
    *(void**)&SP_PTR(&g_this->f3) = g_old; SP_CTRLV(&g_this->f3) = (void*)g_cOld; }
  g_nOld0 = g_cOld->count;
  AUT* r = FASSIGN(g_this, g_src); CANARY("h_FASSIGN"); }
