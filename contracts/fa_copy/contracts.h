/* Unit fa_copy (DESIGN.md 5-C11, 11): copy construction and copy assignment of the finite core.  All three value members (final states, start states,
   start-symbol map) are copied from the source's, member by member; the rule store is SHARED and the sharing is accounted for (one more owner; on
   assignment the old store loses one), the source is not written; self-assignment changes nothing. */
#include "common/sp_ghost.h"
AUT *g_this, *g_src; void *g_M, *g_old; struct GC *g_cM, *g_cOld; uint64_t g_nM0, g_nOld0; _Bool g_fin, g_start, g_smap;
#define VALS (g_fin && g_start && g_smap)
#define CONTRACT_FCOPY \
  __CPROVER_requires(v_this == g_this && v_aut == g_src && g_this != g_src && !g_fin && !g_start && !g_smap) \
  __CPROVER_requires((void*)SP_PTR(&g_src->f3) == g_M && SP_CTRL(&g_src->f3) == g_cM && g_cM->count == g_nM0 && g_nM0 >= 1 && g_nM0 < UINT64_MAX) \
  __CPROVER_assigns(__CPROVER_object_whole(g_this), g_cM->count, g_fin, g_start, g_smap) \
  __CPROVER_ensures(VALS && (void*)SP_PTR(&g_this->f3) == g_M && SP_CTRL(&g_this->f3) == g_cM && g_cM->count == g_nM0 + 1 && (void*)SP_PTR(&g_src->f3) == g_M)
#define CONTRACT_FASSIGN \
  __CPROVER_requires(v_this == g_this && v_rhs == g_src && !g_fin && !g_start && !g_smap) \
  __CPROVER_requires((void*)SP_PTR(&g_src->f3) == g_M && SP_CTRL(&g_src->f3) == g_cM && g_cM->count == g_nM0 && g_nM0 >= 1 && g_nM0 < UINT64_MAX) \
  __CPROVER_requires((void*)SP_PTR(&g_this->f3) == g_old && SP_CTRL(&g_this->f3) == g_cOld && g_cOld->count == g_nOld0 && g_nOld0 >= 1 && (g_this == g_src ==> g_cOld == g_cM) && (g_cOld == g_cM ==> g_old == g_M)) \
  __CPROVER_assigns(__CPROVER_object_whole(g_this), g_cM->count, g_cOld->count, g_fin, g_start, g_smap, SP_GHOSTS) \
  __CPROVER_ensures(__CPROVER_return_value == g_this && (void*)SP_PTR(&g_this->f3) == g_M && SP_CTRL(&g_this->f3) == g_cM && (void*)SP_PTR(&g_src->f3) == g_M) \
  __CPROVER_ensures(g_this == g_src ==> (g_cM->count == g_nM0 && !g_fin && !g_start && !g_smap)) \
  __CPROVER_ensures(g_this != g_src ==> VALS) \
  __CPROVER_ensures((g_this != g_src && g_cOld != g_cM) ==> (g_cM->count == g_nM0 + 1 && g_cOld->count == g_nOld0 - 1)) \
  __CPROVER_ensures((g_this != g_src && g_cOld == g_cM) ==> g_cM->count == g_nM0)
