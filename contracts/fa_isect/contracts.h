/* Unit fa_isect (DESIGN.md 5-C10, 11): ExplicitFiniteAutCore::Intersection -- product construction from the pairs of start states.
   Abstract vocabulary (uninterpreted): PSF(l, r) the product state the translation map gives to the pair; FINL / FINR final in lhs / rhs;
   STL / STR start state of lhs / rhs; SYML(l, s) / SYMR(r, s): s is a start symbol of l / r.
   PROVENANCE (everything put into the result is justified), for automata of any size:
   (X1) a pair enters the translation map / the stack only as (start state of lhs, start state of rhs) or as (successor of the pair in hand
        in lhs, successor in rhs) under the SAME symbol (the symbol looked up in the rhs cluster is the lhs symbol under the cursor);
   (X2) the cluster written in the result is the one of PSF(pair in hand), the successor set the one of the common symbol, the state added PSF(successor pair);
   (X3) PSF(pair in hand) is made final only if both components are final;
   (X4) PSF(pair in hand) is made a start state under symbol s only if BOTH components are start states and s is a start symbol of BOTH;
   (X5) the result is returned through RemoveUselessStates.
   (X6) START COMPLETENESS, per pair in hand: for an arbitrary witness symbol ws that is a start symbol of both components (both being start states),
        the product state has been made a start state under ws before the clusters of the pair are looked up.
   (X7) EDGE COMPLETENESS, per pair in hand (l, r): for an arbitrary witness (wa, wl2, wr2) with l --wa--> wl2 in lhs and r --wa--> wr2 in rhs (uninterpreted EDGEL / EDGER),
        PSF(wl2, wr2) has been added to the successors of PSF(l, r) under wa before the next pair is taken from the stack (three nested witness traversals).
   Not decided: that every pair of start states is initially recorded (the two start loops are only checked for provenance), language equality as such. */
#include "common/sp_ghost.h"
AUT *g_lhs, *g_rhs, *g_ret; void *g_res, *g_pmap, *g_pm_param, *m_l, *m_r, *m_res, *g_lcopy, *g_rset, *g_stack;
uint64_t c_lss, c_rss, c_al, c_ar, c_lsym, c_lstate, c_rstate, c_ssym; _Bool g_work, g_find_hit, g_sss_w, seen_ss, has_ws, r_ws, hl, hr, seen_sy, cur_sy, seen_l2, cur_l2, seen_r2, g_edge_w; uint64_t ws, wa, wl2, wr2; uint8_t g_ret_kind;
uint64_t cell_v1, cell_v2, cell_v3, cell_v4, cell_v5, cell_v6; PENTRY cell_pe, cell_act; PENTRY* cell_actp; E_CLU cell_lentry, cell_rentry; SPC cell_spc; SS cell_rs;
#define TOKLCL ((void*)(uintptr_t)0x1000)   /* cluster of the left component in hand */
#define TOKRCL ((void*)(uintptr_t)0x2000)   /* cluster of the right component in hand */
#define TOKRC  ((void*)(uintptr_t)0x3000)   /* cluster of the product state in the result */
#define TOKSYL ((void*)(uintptr_t)0x4000)   /* start symbols of the left component */
#define TOKSYR ((void*)(uintptr_t)0x5000)
#define K_LSS ((void*)(uintptr_t)0x10)
#define K_RSS ((void*)(uintptr_t)0x20)
#define K_LSY ((void*)(uintptr_t)0x30)
#define K_RSY ((void*)(uintptr_t)0x40)
#define K_LST ((void*)(uintptr_t)0x50)
#define K_RST ((void*)(uintptr_t)0x60)
#define G_RSUCC c_rstate, cell_v6, cell_pe, seen_r2, g_edge_w
#define G_LSUCC G_RSUCC, c_lstate, cell_v5, seen_l2, cur_l2
#define G_SSYM  c_ssym, cell_v3, cell_v4, g_sss_w, seen_ss
#define G_LSYMS G_LSUCC, seen_sy, cur_sy, c_lsym, cell_lentry, cell_rentry, cell_spc, cell_rs, g_lcopy, g_rset, g_find_hit
#define G_WORK  G_LSYMS, G_SSYM, has_ws, r_ws, hl, hr, c_al, c_ar, cell_act, cell_actp, g_work, g_sss_w, seen_ss
#define G_START c_lss, c_rss, cell_v1, cell_v2, cell_pe
#define CONTRACT_ISECT \
  __CPROVER_requires(v_lhs == g_lhs && v_rhs == g_rhs && v_agg_result == g_ret && v_pTranslMap == g_pm_param && g_ret_kind == 0 && !g_work) \
  __CPROVER_assigns(G_WORK, G_START, g_res, g_pmap, g_stack, g_ret_kind) \
  __CPROVER_ensures(g_ret_kind == 1)
#define STABLE (g_res == (void*)&v_res_slot && g_stack == (void*)&v_stack_slot && g_pmap == (void*)v_pTranslMap_addr_slot && g_ret_kind == 0)
#define LOOPASG_ISECT__L_LSTART , G_START
#define LOOP_ISECT__L_LSTART __CPROVER_loop_invariant(END_ISECT__L_LSTART.f0.f0 == 0 && (BEGIN_ISECT__L_LSTART.f0.f0 == 0 || BEGIN_ISECT__L_LSTART.f0.f0 == K_LSS) && STABLE && !g_work)
#define LOOPASG_ISECT__L_RSTART , c_rss, cell_v2, cell_pe
#define LOOP_ISECT__L_RSTART __CPROVER_loop_invariant(END_ISECT__L_RSTART.f0.f0 == 0 && (BEGIN_ISECT__L_RSTART.f0.f0 == 0 || BEGIN_ISECT__L_RSTART.f0.f0 == K_RSS) && STABLE && !g_work)
#define LOOPASG_ISECT__L_WORK , G_WORK
#define LOOP_ISECT__L_WORK __CPROVER_loop_invariant(STABLE && (!g_work || !(hl && hr) || g_edge_w))
#define ACT (g_work && cell_act.f0.f0 == c_al && cell_act.f0.f1 == c_ar && v_actState_slot == &cell_act)
#define CLP (SP_PTR(&v_clusterptr_slot) == 0 || SP_PTR(&v_clusterptr_slot) == TOKRC)
#define LOOPASG_ISECT__L_LSYMS , G_LSYMS
#define LOOP_ISECT__L_LSYMS __CPROVER_loop_invariant(END_ISECT__L_LSYMS.f0.f0 == 0 && STABLE && ACT && CLP && v_lcluster_slot == TOKLCL && v_rcluster_slot == TOKRCL) \
  __CPROVER_loop_invariant((hl && BEGIN_ISECT__L_LSYMS.f0.f0 == 0) ==> seen_sy) \
  __CPROVER_loop_invariant((hl && hr && seen_sy) ==> g_edge_w)
#define LOOPASG_ISECT__L_LSSYM , G_SSYM
#define LOOP_ISECT__L_LSSYM __CPROVER_loop_invariant(END_ISECT__L_LSSYM.f0.f0 == 0 && (BEGIN_ISECT__L_LSSYM.f0.f0 == 0 || BEGIN_ISECT__L_LSSYM.f0.f0 == K_LSY) && STABLE && ACT) \
  __CPROVER_loop_invariant((has_ws && BEGIN_ISECT__L_LSSYM.f0.f0 == 0) ==> seen_ss) \
  __CPROVER_loop_invariant((has_ws && seen_ss && r_ws) ==> g_sss_w)
#define SUCCCTX (STABLE && ACT && SP_PTR(&v_clusterptr_slot) == TOKRC && v_stateSet_slot == &cell_rs && g_lcopy == (void*)&v_lsymbolToPtrPointer_slot && g_rset == (void*)&v_rstateSet_slot)
#define LOOPASG_ISECT__L_LSUCC , G_LSUCC
#define LOOP_ISECT__L_LSUCC __CPROVER_loop_invariant(END_ISECT__L_LSUCC.f0.f0 == 0 && (BEGIN_ISECT__L_LSUCC.f0.f0 == 0 || BEGIN_ISECT__L_LSUCC.f0.f0 == K_LST) && SUCCCTX) \
  __CPROVER_loop_invariant((hl && cur_sy && BEGIN_ISECT__L_LSUCC.f0.f0 == 0) ==> seen_l2) \
  __CPROVER_loop_invariant((hl && hr && cur_sy && seen_l2) ==> g_edge_w) \
  __CPROVER_loop_invariant((hl && hr && !cur_sy && seen_sy) ==> g_edge_w)
#define LOOPASG_ISECT__L_RSUCC , G_RSUCC
#define LOOP_ISECT__L_RSUCC __CPROVER_loop_invariant(END_ISECT__L_RSUCC.f0.f0 == 0 && (BEGIN_ISECT__L_RSUCC.f0.f0 == 0 || BEGIN_ISECT__L_RSUCC.f0.f0 == K_RST) && SUCCCTX) \
  __CPROVER_loop_invariant((hl && hr && cur_sy && cur_l2 && BEGIN_ISECT__L_RSUCC.f0.f0 == 0) ==> seen_r2) \
  __CPROVER_loop_invariant((hl && hr && cur_sy && cur_l2 && seen_r2) ==> g_edge_w) \
  __CPROVER_loop_invariant((hl && hr && cur_sy && !cur_l2 && seen_l2) ==> g_edge_w) \
  __CPROVER_loop_invariant((hl && hr && !cur_sy && seen_sy) ==> g_edge_w)
