#define CANARY(n) __CPROVER_assert(0, "canary: " n " reaches the end (must FAIL)")
#define TOK ((void*)(uintptr_t)8)
_Bool nondet_bool(void); uint64_t nondet_u64(void);
uint64_t __CPROVER_uninterpreted_EDGEL(uint64_t l, uint64_t a, uint64_t l2); uint64_t __CPROVER_uninterpreted_EDGER(uint64_t r, uint64_t a, uint64_t r2);
uint64_t __CPROVER_uninterpreted_PSF(uint64_t l, uint64_t r); uint64_t __CPROVER_uninterpreted_FINL(uint64_t s); uint64_t __CPROVER_uninterpreted_FINR(uint64_t s);
uint64_t __CPROVER_uninterpreted_STL(uint64_t s); uint64_t __CPROVER_uninterpreted_STR(uint64_t s); uint64_t __CPROVER_uninterpreted_SYML(uint64_t s, uint64_t a); uint64_t __CPROVER_uninterpreted_SYMR(uint64_t s, uint64_t a);
#define PSF(l, r) __CPROVER_uninterpreted_PSF(l, r)
void PM_CTOR(void* m) { g_pmap = (g_pm_param != 0) ? g_pm_param : m; } void PM_DTOR(void* m) { } void VECP_CTOR(void* v) { g_stack = v; } void VECP_DTOR(void* v) { } void AUT_DTOR(void* a) { } void SPM_DTOR(void* s) { } void SPC_DTOR(void* s) { } void SS_DTOR(void* s) { } void E_DTOR(void* e) { } void SS_CTOR(void* s) { }
void AUT_CTOR(void* a, void* alph) { g_res = a; SP_PTR(&((AUT*)a)->f3) = m_res; }
void SPM_COPY(void* d, void* s) { __CPROVER_assert(s == (void*)&((AUT*)g_res)->f3, "the result's own cluster map is written"); SP_PTR((__typeof__(&g_lhs->f3))d) = m_res; }
/* ---- const traversals (start states of both operands, start symbols of both components): the token carries the kind ---- */
void* CUSET_BEGIN(void* s) { void* k = (void*)0;
  if (s == (void*)&g_lhs->f1) k = K_LSS; else if (s == (void*)&g_rhs->f1) k = K_RSS; else if (s == TOKSYL) { k = K_LSY; seen_ss = 0; has_ws = __CPROVER_uninterpreted_SYML(c_al, ws) != 0; r_ws = __CPROVER_uninterpreted_SYMR(c_ar, ws) != 0; if (has_ws) return k; } else if (s == TOKSYR) k = K_RSY;
  else __CPROVER_assert(0, "traversal of a known set"); return nondet_bool() ? k : (void*)0; }
void* CUSET_END(void* s) { return (void*)0; }
uint64_t* CUSI_DEREF(void* it_) { CUSI* it = (CUSI*)it_; void* k = (void*)it->f0.f0; __CPROVER_assert(k != 0, "no dereference of an end iterator");
  if (k == K_LSS) { c_lss = nondet_u64(); __CPROVER_assume(__CPROVER_uninterpreted_STL(c_lss) != 0); cell_v1 = c_lss; return &cell_v1; }
  if (k == K_RSS) { c_rss = nondet_u64(); __CPROVER_assume(__CPROVER_uninterpreted_STR(c_rss) != 0); cell_v2 = c_rss; return &cell_v2; }
  if (k == K_LSY) { _Bool w = has_ws && nondet_bool() && !seen_ss; if (w) seen_ss = 1; c_ssym = nondet_u64(); if (w) c_ssym = ws; else __CPROVER_assume(!has_ws || c_ssym != ws);
    __CPROVER_assume(__CPROVER_uninterpreted_SYML(c_al, c_ssym) != 0); cell_v3 = c_ssym; return &cell_v3; }
  __CPROVER_assert(k == K_RSY, "a known traversal"); c_ssym = nondet_u64(); __CPROVER_assume(__CPROVER_uninterpreted_SYMR(c_ar, c_ssym) != 0); cell_v4 = c_ssym; return &cell_v4; }
void* CUSI_INC(void* it_) { CUSI* it = (CUSI*)it_; _Bool lsy = ((void*)it->f0.f0 == K_LSY); if (nondet_bool()) it->f0.f0 = 0; if (lsy) __CPROVER_assume(it->f0.f0 != 0 || !has_ws || seen_ss); return it; }
uint64_t CUSET_COUNT(void* s, uint64_t* x) { __CPROVER_assert(s == TOKSYR, "membership in the start symbols of the right component"); return __CPROVER_uninterpreted_SYMR(c_ar, *x) != 0; }
/* ---- the translation map and the stack ---- */
MKPAIR_UU_RET MKPAIR_UU(uint64_t* a, uint64_t* b) { MKPAIR_UU_RET r; r.f0 = *a; r.f1 = *b; return r; }
uint64_t PM_SIZE(void* m) { __CPROVER_assert(m == g_pmap, "size of the translation map in use"); return nondet_u64(); }
void MKPAIR_PU(void* ret, void* pr, uint64_t* n) { PAIR_PU* p = (PAIR_PU*)ret; p->f0.f0 = ((uint64_t*)pr)[0]; p->f0.f1 = ((uint64_t*)pr)[1]; p->f1 = *n; }
PM_INSRET PM_INSERT(void* m, void* kv) { PAIR_PU* p = (PAIR_PU*)kv; __CPROVER_assert(m == g_pmap, "pairs are recorded in the translation map in use");
  if (!g_work) __CPROVER_assert(p->f0.f0 == c_lss && p->f0.f1 == c_rss, "C10: an initial pair is (start state of lhs, start state of rhs)");
  else __CPROVER_assert(p->f0.f0 == c_lstate && p->f0.f1 == c_rstate, "C10: a new pair is (successor in lhs, successor in rhs) of the pair in hand under the common symbol");
  cell_pe.f0.f0 = p->f0.f0; cell_pe.f0.f1 = p->f0.f1; cell_pe.f1 = PSF(p->f0.f0, p->f0.f1); PM_INSRET r; r.f0 = TOK; r.f1 = nondet_bool(); return r; }
void* PMI_DEREF(void* it) { __CPROVER_assert(((void**)it)[0] != 0, "* on the entry inserted"); return &cell_pe; }
void* PMI_ARROW(void* it) { __CPROVER_assert(((void**)it)[0] != 0, "-> on the entry inserted"); return &cell_pe; }
void VECP_PUSH(void* v, PENTRY** pp) { __CPROVER_assert(v == g_stack && *pp == &cell_pe, "the entry just recorded is put on the stack"); }
_Bool VECP_EMPTY(void* v) { __CPROVER_assert(!g_work || !(hl && hr) || g_edge_w, "C10: the product edge of two operand edges under the same symbol has been produced for the pair in hand"); return nondet_bool(); }
PENTRY** VECP_BACK(void* v) { c_al = nondet_u64(); c_ar = nondet_u64(); cell_act.f0.f0 = c_al; cell_act.f0.f1 = c_ar; cell_act.f1 = PSF(c_al, c_ar); cell_actp = &cell_act; g_work = 1; g_sss_w = 0; g_edge_w = 0; seen_sy = 0; cur_sy = 0;
  hl = __CPROVER_uninterpreted_EDGEL(c_al, wa, wl2) != 0; hr = __CPROVER_uninterpreted_EDGER(c_ar, wa, wr2) != 0; return &cell_actp; }
void VECP_POP(void* v) { }
/* ---- the pair in hand ---- */
_Bool ISF(void* a, uint64_t* x) { if (a == (void*)g_lhs) { __CPROVER_assert(*x == c_al, "finality of the left component is asked of lhs"); return __CPROVER_uninterpreted_FINL(*x) != 0; }
  __CPROVER_assert(a == (void*)g_rhs && *x == c_ar, "finality of the right component is asked of rhs"); return __CPROVER_uninterpreted_FINR(*x) != 0; }
void SSF(void* a, uint64_t* x) { __CPROVER_assert(a == g_res && *x == PSF(c_al, c_ar) && __CPROVER_uninterpreted_FINL(c_al) != 0 && __CPROVER_uninterpreted_FINR(c_ar) != 0, "C10: a product state is final only if both components are"); }
void* GLOOKUP(void* m, uint64_t* k) { if (m == m_l) { __CPROVER_assert(*k == c_al, "cluster of the left component");
    __CPROVER_assert(!(__CPROVER_uninterpreted_STL(c_al) != 0 && __CPROVER_uninterpreted_STR(c_ar) != 0 && __CPROVER_uninterpreted_SYML(c_al, ws) != 0 && __CPROVER_uninterpreted_SYMR(c_ar, ws) != 0) || g_sss_w,
      "C10: a product of two start states is a start state under every common start symbol"); return (hl || nondet_bool()) ? TOKLCL : (void*)0; }
  __CPROVER_assert(m == m_r && *k == c_ar, "cluster of the right component"); return (hr || nondet_bool()) ? TOKRCL : (void*)0; }
void SPC_NULL(void* s, void* n) { SP_PTR((SPC*)s) = 0; }
void* CLU_BEGIN(void* c) { __CPROVER_assert(c == TOKLCL, "the symbols of the left cluster are traversed"); seen_sy = 0; return (hl || nondet_bool()) ? TOK : (void*)0; }
void* CLU_END(void* c) { return (void*)0; }
void* CLU_DEREF(void* it_) { CLI* it = (CLI*)it_; __CPROVER_assert(it->f0.f0 != 0, "no dereference of an end iterator"); cur_sy = hl && nondet_bool() && !seen_sy; if (cur_sy) seen_sy = 1; cell_lentry.f0 = nondet_u64(); if (cur_sy) cell_lentry.f0 = wa; else __CPROVER_assume(!hl || cell_lentry.f0 != wa); return &cell_lentry; }
void* CLU_INC(void* it_) { CLI* it = (CLI*)it_; if (nondet_bool()) it->f0.f0 = 0; __CPROVER_assume(it->f0.f0 != 0 || !hl || seen_sy); return it; }
void E_COPY(void* d, void* s) { __CPROVER_assert(s == (void*)&cell_lentry, "copy of the left (symbol, successors) entry under the cursor"); *(uint64_t*)d = cell_lentry.f0; c_lsym = cell_lentry.f0; g_lcopy = d; }
void* CLU_FIND(void* c, uint64_t* k) { __CPROVER_assert(c == TOKRCL && *k == c_lsym, "C10: the right cluster is asked for the SAME symbol"); g_find_hit = (cur_sy && hr) ? 1 : nondet_bool(); return g_find_hit ? TOK : (void*)0; }
void* CLU_ARROW(void* it) { __CPROVER_assert(((void**)it)[0] != 0 && g_find_hit, "-> on the entry found"); cell_rentry.f0 = c_lsym; return &cell_rentry; }
void SS_COPY(void* d, void* s) { __CPROVER_assert(s == (void*)&cell_rentry.f1, "copy of the right successors under the common symbol"); g_rset = d; }
_Bool IS_START(void* a, uint64_t* x) { if (a == (void*)g_lhs) { __CPROVER_assert(*x == c_al, "left component"); return __CPROVER_uninterpreted_STL(*x) != 0; } __CPROVER_assert(a == (void*)g_rhs && *x == c_ar, "right component"); return __CPROVER_uninterpreted_STR(*x) != 0; }
void* GSS(void* a, uint64_t x) { if (a == (void*)g_lhs) { __CPROVER_assert(x == c_al, "start symbols of the left component"); return TOKSYL; } __CPROVER_assert(a == (void*)g_rhs && x == c_ar, "start symbols of the right component"); return TOKSYR; }
void SSS(void* a, uint64_t* st, uint64_t* sym) { __CPROVER_assert(a == g_res && *st == PSF(c_al, c_ar), "the product state in hand is made a start state");
  __CPROVER_assert(__CPROVER_uninterpreted_STL(c_al) != 0 && __CPROVER_uninterpreted_STR(c_ar) != 0 && __CPROVER_uninterpreted_SYML(c_al, *sym) != 0 && __CPROVER_uninterpreted_SYMR(c_ar, *sym) != 0,
    "C10: a product state is a start state under a symbol only if BOTH components are start states under that symbol"); if (*sym == ws) g_sss_w = 1; }
_Bool SPC_BOOL(void* s) { return SP_PTR((SPC*)s) != 0; }
void* UC(void* m, uint64_t* k) { __CPROVER_assert(m == m_res && *k == PSF(c_al, c_ar), "C10: the cluster written is the one of the product state in hand"); SP_PTR(&cell_spc) = TOKRC; return &cell_spc; }
void* SPC_ASSIGN(void* d, void* s) { SP_PTR((SPC*)d) = SP_PTR((SPC*)s); return d; }
void* URS(void* c, uint64_t* sym) { __CPROVER_assert(c == TOKRC && *sym == c_lsym, "C10: the successor set written is the one of the common symbol"); return &cell_rs; }
void* SS_ASSIGN(void* d, void* s) { return d; }
/* ---- successor pairs ---- */
void* USET_BEGIN(void* s) { if (s == (void*)((uint8_t*)g_lcopy + 8)) { seen_l2 = 0; return ((hl && cur_sy) || nondet_bool()) ? K_LST : (void*)0; }
  __CPROVER_assert(s == g_rset, "traversal of the two successor sets"); seen_r2 = 0; return ((hr && cur_sy) || nondet_bool()) ? K_RST : (void*)0; }
void* USET_END(void* s) { return (void*)0; }
uint64_t* USI_DEREF(void* it_) { USI* it = (USI*)it_; void* k = (void*)it->f0.f0; __CPROVER_assert(k != 0, "no dereference of an end iterator");
  if (k == K_LST) { cur_l2 = hl && cur_sy && nondet_bool() && !seen_l2; if (cur_l2) seen_l2 = 1; c_lstate = nondet_u64(); if (cur_l2) c_lstate = wl2; else __CPROVER_assume(!(hl && cur_sy) || c_lstate != wl2); cell_v5 = c_lstate; return &cell_v5; } __CPROVER_assert(k == K_RST, "a known traversal"); _Bool w = hr && cur_sy && nondet_bool() && !seen_r2; if (w) seen_r2 = 1; c_rstate = nondet_u64(); if (w) c_rstate = wr2; else __CPROVER_assume(!(hr && cur_sy) || c_rstate != wr2); cell_v6 = c_rstate; return &cell_v6; }
void* USI_INC(void* it_) { USI* it = (USI*)it_; void* k = (void*)it->f0.f0; if (nondet_bool()) it->f0.f0 = 0;
  if (k == K_LST) __CPROVER_assume(it->f0.f0 != 0 || !(hl && cur_sy) || seen_l2); else __CPROVER_assume(it->f0.f0 != 0 || !(hr && cur_sy) || seen_r2); return it; }
USET_INSRET USET_INSERT(void* s, uint64_t* x) { __CPROVER_assert(s == (void*)&cell_rs && *x == PSF(c_lstate, c_rstate), "C10: the state added is the product state of the successor pair"); if (cur_sy && cur_l2 && c_lstate == wl2 && c_rstate == wr2) g_edge_w = 1; USET_INSRET r; r.f1 = nondet_bool(); return r; }
void RUSL(void* ret, void* a, void* tm) { __CPROVER_assert(ret == (void*)g_ret && a == g_res && tm == (void*)0, "the product is returned through RemoveUselessStates"); g_ret_kind = 1; }
void h_ISECT(void) { g_lhs = malloc(sizeof *g_lhs); g_rhs = malloc(sizeof *g_rhs); g_ret = malloc(sizeof *g_ret); m_l = malloc(64); m_r = malloc(64); m_res = malloc(64); __CPROVER_assume(g_lhs && g_rhs && g_ret && m_l && m_r && m_res);
  SP_PTR(&g_lhs->f3) = m_l; SP_PTR(&g_rhs->f3) = m_r; g_pm_param = nondet_bool() ? malloc(56) : (void*)0; g_ret_kind = 0; g_work = 0; g_pmap = 0; hl = 0; hr = 0; g_edge_w = 0;
  ISECT(g_ret, g_lhs, g_rhs, g_pm_param); CANARY("h_ISECT"); }
