#define CANARY(n) __CPROVER_assert(0, "canary: " n " reaches the end (must FAIL)")
#define SP_PTR(sp) ((sp)->f0.f0)
_Bool nondet_bool(void);
/* ---- Union ---- */
void UMAP_CTOR(void* m) { if (g_umaps == 0) g_lm1 = m; else g_lm2 = m; g_umaps++; } void UMAP_DTOR(void* m) { } void FUNC_DTOR(void* f) { } void TW_DTOR(void* t) { }
void FUNC_CTOR(void* f, void* closure) { void* cnt = ((void**)closure)[0]; __CPROVER_assert(*(uint64_t*)cnt == 0, "C02: the shared counter starts at 0 and is untouched before the re-indexing");
  if (g_funcs == 0) { g_f1 = f; g_cnt1 = cnt; } else { g_f2 = f; g_cnt2 = cnt; } g_funcs++; }
void TW_CTOR(void* tw, void* map, void* f) { if (g_tws == 0) { g_tw1 = tw; g_tw1_map = map; g_tw1_f = f; } else { g_tw2 = tw; g_tw2_map = map; g_tw2_f = f; } g_tws++; }
void AUT_CTOR(void* a, void* cache, void* alph) { __CPROVER_assert(a == (void*)g_ret && g_step == 0 && cache == *(void**)&g_lhs->f0, "C02: the result starts empty, on the tuple cache of lhs"); g_step = 1; }
void RIS(void* self, void* dst, void* tw, _Bool fl) {
  if (g_step == 1) { g_ok1 = (self == (void*)g_lhs && dst == (void*)g_ret && tw == g_tw1 && fl && g_tws == 2 && g_funcs == 2 && g_tw1_f == g_f1 && g_tw1_map == (g_pl ? g_pl : g_lm1)); g_step = 2; }
  else { __CPROVER_assert(g_step == 2, "two re-indexings, after the result was constructed");
    g_ok2 = (self == (void*)g_rhs && dst == (void*)g_ret && tw == g_tw2 && tw != g_tw1 && fl && g_tw2_f == g_f2 && g_tw2_map == (g_pr ? g_pr : g_lm2) && g_tw2_map != g_tw1_map && g_cnt1 == g_cnt2 && g_cnt1 != 0); g_step = 3; } }
void AUT_DTOR(void* a) { if (a == (void*)g_ret) g_ret_destroyed = 1; }
/* not called today: kept so that an edit comparing the operands' rule stores gets a verdict (copies of an automaton SHARE their store: C11) */
_Bool SPM_NE(void* a, void* b) { return ((void**)a)[0] != ((void**)b)[0]; }
/* ---- UnionDisjointStates ---- */
void AUT_COPY3(void* d, void* s, _Bool ct, _Bool cf) { __CPROVER_assert(d == (void*)g_ret && s == (void*)g_lhs && ct && cf && g_step == 0, "C02: the result starts as a copy of lhs (rules and final states)"); g_step = 1; SP_PTR(&((AUT*)d)->f2) = m_l; /* shared with lhs */ }
void* UCM(void* a) { __CPROVER_assert(a == (void*)g_ret && g_step == 1 && !g_rins_c, "C02/C11: the result's cluster map is made exclusive before it is written"); g_ucm = 1; SP_PTR(&((AUT*)a)->f2) = m_res; return &((AUT*)a)->f2; }
void* CMAP_BEGIN(void* m) { __CPROVER_assert(m == m_r, "range over the cluster map of rhs"); return (void*)8; }
void* CMAP_END(void* m) { __CPROVER_assert(m == m_r, "range over the cluster map of rhs"); return (void*)0; }
void CMAP_RINSERT(void* m, void* b, void* e) { __CPROVER_assert(m == m_res && g_ucm && b == (void*)8 && e == (void*)0 && !g_rins_c, "C02: all clusters of rhs are inserted, once, into the result's exclusive map"); g_rins_c = 1; }
void* FS_BEGIN(void* s) { __CPROVER_assert(s == (void*)&g_rhs->f1, "range over the final states of rhs"); return (void*)16; }
void* FS_END(void* s) { __CPROVER_assert(s == (void*)&g_rhs->f1, "range over the final states of rhs"); return (void*)0; }
void FS_RINSERT(void* s, void* b, void* e) { __CPROVER_assert(s == (void*)&g_ret->f1 && b == (void*)16 && e == (void*)0 && !g_rins_f, "C02: all final states of rhs are inserted, once, into the result's own final states"); g_rins_f = 1; }
static void setup(void) { g_lhs = malloc(sizeof *g_lhs); g_rhs = malloc(sizeof *g_rhs); g_ret = malloc(sizeof *g_ret); m_l = malloc(64); m_r = malloc(64); m_res = malloc(64); __CPROVER_assume(g_lhs && g_rhs && g_ret && m_l && m_r && m_res);
  SP_PTR(&g_lhs->f2) = m_l; SP_PTR(&g_rhs->f2) = m_r; g_share = 0; g_umaps = 0; g_step = 0; g_funcs = 0; g_tws = 0; g_ret_destroyed = 0; g_ucm = 0; g_rins_c = 0; g_rins_f = 0; }
void h_UNION(void) { setup(); if (nondet_bool()) { SP_PTR(&g_rhs->f2) = m_l; g_share = 1; }   /* rhs may be a copy of lhs that shares its rule store (and differs in its final states) */
  g_pl = nondet_bool() ? malloc(56) : (void*)0; g_pr = nondet_bool() ? malloc(56) : (void*)0; UNION(g_ret, g_lhs, g_rhs, g_pl, g_pr); CANARY("h_UNION"); }
void h_UDS(void) { setup(); UDS(g_ret, g_lhs, g_rhs); CANARY("h_UDS"); }
