/* Unit ta_union (DESIGN.md 5-C02, 11): the two loop-free union operations of the explicit tree automaton, as compositions.
   Union(lhs, rhs, pTranslMapLhs, pTranslMapRhs):
     two weak translators are built, over the caller's maps where given (else over two DIFFERENT local maps), whose number-giving functions capture the SAME
     counter, which starts at 0 (=> the two images are disjoint ranges of one dense numbering);  the result is default-constructed on lhs's tuple cache (empty);
     lhs.ReindexStates(result, translator-lhs, true) and then rhs.ReindexStates(result, translator-rhs, true), each exactly once (contract of that function, C14:
     exactly the image of the rules and final states is added);  the result is returned, the operands are only read.
   UnionDisjointStates(lhs, rhs):
     the result is a copy of lhs (rules and final states);  its cluster map is made exclusive (uniqueClusterMap, C11) BEFORE the clusters of rhs are range-inserted
     into it, from rhs's own map begin() to end();  rhs's final states are range-inserted into the result's own final states;  the operands are only read. */
AUT *g_lhs, *g_rhs, *g_ret; void *g_pl, *g_pr, *m_l, *m_r, *m_res;
uint64_t g_umaps, g_step, g_funcs, g_tws; void *g_lm1, *g_lm2, *g_cnt1, *g_cnt2, *g_f1, *g_f2, *g_tw1, *g_tw2, *g_tw1_map, *g_tw2_map, *g_tw1_f, *g_tw2_f; _Bool g_ret_destroyed, g_ok1, g_ok2, g_ucm, g_rins_c, g_rins_f, g_share;
#define UG g_umaps, g_step, g_funcs, g_tws, g_lm1, g_lm2, g_cnt1, g_cnt2, g_f1, g_f2, g_tw1, g_tw2, g_tw1_map, g_tw2_map, g_tw1_f, g_tw2_f, g_ret_destroyed, g_ok1, g_ok2, g_ucm, g_rins_c, g_rins_f
#define CONTRACT_UNION \
  __CPROVER_requires(v_lhs == g_lhs && v_rhs == g_rhs && v_agg_result == g_ret && v_pTranslMapLhs == g_pl && v_pTranslMapRhs == g_pr && g_umaps == 0 && g_step == 0 && g_funcs == 0 && g_tws == 0 && !g_ret_destroyed) \
  __CPROVER_requires(g_pl == 0 || g_pl != g_pr) \
  __CPROVER_assigns(UG) \
  __CPROVER_ensures(g_step == 3 && g_ok1 && g_ok2 && !g_ret_destroyed)
#define CONTRACT_UDS \
  __CPROVER_requires(v_lhs == g_lhs && v_rhs == g_rhs && v_agg_result == g_ret && g_step == 0 && !g_ucm && !g_rins_c && !g_rins_f && !g_ret_destroyed) \
  __CPROVER_assigns(UG, g_ret->f2.f0.f0) \
  __CPROVER_ensures(g_step == 1 && g_ucm && g_rins_c && g_rins_f && !g_ret_destroyed)
