#!/usr/bin/env python3
"""irfacts: mechanically generated definite-initialisation obligation on the IR of every libvata translation unit (DESIGN.md 5-C20 (b)).

Obligation, for every function of every TU listed in src/CMakeLists.txt and every *scalar* stack slot (alloca of iN / float / pointer):

    a slot that its defining function never stores to, never passes to a callee and never copies into
    is neither loaded directly nor captured by reference into a closure whose body reads through the
    capture before writing through it.

This is a static fact discharged on the compiler's IR (not a proof of the program); it is deliberately narrow: a slot that is
initialised on some path, through an out-parameter or through any pointer that escapes produces no obligation failure.
"""
import re, sys, os, subprocess, json, time, hashlib
from concurrent.futures import ThreadPoolExecutor

SCALAR = re.compile(r'^(i\d+|float|double|.*\*)$')
CLANG = ['clang++-14', '-std=c++11', '-O0', '-DNDEBUG', '-gline-tables-only', '-S', '-emit-llvm', '-fno-discard-value-names', '-w']

def tu_list(repo):
    txt = open(os.path.join(repo, 'src', 'CMakeLists.txt')).read()
    files = re.findall(r'^\s*([A-Za-z0-9_\-./]+\.cc)\s*$', txt, re.M)
    out = []
    for f in files:
        p = os.path.join(repo, 'src', f)
        if os.path.exists(p) and p not in out: out.append(p)
    return out

def funcs(path):
    cur = None; name = None
    for ln in open(path):
        if ln.startswith('define '):
            m = re.search(r'@("[^"]+"|[-\w$.]+)\(', ln); name = m.group(1); cur = []; hdr = ln
        elif ln.startswith('}') and cur is not None:
            yield name, hdr, cur; cur = None
        elif cur is not None:
            cur.append(ln.rstrip('\n'))

def dbg_line(meta, ln):
    m = re.search(r'!dbg (!\d+)', ln)
    if not m: return None
    t = meta.get(m.group(1), '')
    l = re.search(r'line: (\d+)', t); sc = re.search(r'scope: (!\d+)', t)
    f = None; ref = sc.group(1) if sc else None
    for _ in range(10):
        if not ref: break
        tt = meta.get(ref, '')
        fm = re.search(r'filename: "([^"]*)"', tt)
        if fm: f = fm.group(1); break
        fr = re.search(r'file: (!\d+)', tt)
        ref = fr.group(1) if fr else (re.search(r'scope: (!\d+)', tt).group(1) if re.search(r'scope: (!\d+)', tt) else None)
    return '%s:%s' % (f, l.group(1)) if (f and l) else None

def analyse(path):
    """returns (number of scalar slots examined, list of findings)"""
    txt = open(path).read()
    meta = dict(re.findall(r'^(!\d+) = (.*)$', txt, re.M))
    allf = list(funcs(path))
    bodies = {n: (h, b) for n, h, b in allf}
    findings = []; examined = 0
    for name, hdr, body in allf:
        allocas = {}
        for ln in body:
            m = re.match(r'\s+(%[-\w.$]+) = alloca ([^,]+), align', ln)
            if m and SCALAR.match(m.group(2).strip()): allocas[m.group(1)] = m.group(2).strip()
        if not allocas: continue
        text = '\n'.join(body)
        for a, ty in allocas.items():
            examined += 1
            ea = re.escape(a)
            if re.search(r'store [^\n]*\* %s, align' % ea, text): continue          # some direct store exists
            uses = [u for u in re.findall(r'[^\n]*%s\b[^\n]*' % ea, text) if ' = alloca ' not in u]
            if not uses: continue
            esc = [u for u in uses if re.search(r'store %s %s, ' % (re.escape(ty + '*'), ea), u)]
            loads = [u for u in uses if re.search(r'= load [^,]+, [^,]*\* %s, align' % ea, u)]
            other = [u for u in uses if u not in esc and u not in loads]
            if other: continue                                                       # address passed on: may be initialised elsewhere
            if loads:
                findings.append({'tu': path, 'function': name, 'slot': a, 'why': 'loaded directly, never stored', 'source': dbg_line(meta, loads[0])})
                continue
            # captured by reference: stored into field k of a closure object; look at the closure body
            for u in esc:
                m = re.search(r'store %s %s, %s\* (%%[-\w.$]+)' % (re.escape(ty + '*'), ea, re.escape(ty + '*')), u)
                if not m: continue
                dst = m.group(1)
                g = re.search(r'%s = getelementptr inbounds (%%[-\w.$"]+), [^\n]*, i32 0, i32 (\d+)' % re.escape(dst), text)
                if not g or 'anon' not in g.group(1):
                    continue
                cls, k = g.group(1), int(g.group(2))
                reads_first = None
                for n2, (h2, b2) in bodies.items():
                    if 'clE' not in n2 or (cls + '*') not in h2: continue
                    t2 = '\n'.join(b2)
                    # pointer(s) loaded from field k of this
                    fld = re.findall(r'(%%[-\w.$]+) = getelementptr inbounds %s, [^\n]*, i32 0, i32 %d\b' % (re.escape(cls), k), t2)
                    ptrs = []
                    for f in fld: ptrs += re.findall(r'(%%[-\w.$]+) = load %s, [^\n]*\* %s,' % (re.escape(ty + '*'), re.escape(f)), t2)
                    first = None
                    for ln in b2:
                        for p in ptrs:
                            if re.search(r'= load [^,]+, [^,]*\* %s, align' % re.escape(p), ln): first = first or ('load', ln)
                            if re.search(r'store [^\n]*\* %s, align' % re.escape(p), ln): first = first or ('store', ln)
                        if first: break
                    if first and first[0] == 'load': reads_first = (n2, dbg_line(meta, first[1]))
                if reads_first:
                    findings.append({'tu': path, 'function': name, 'slot': a, 'why': 'captured by reference into a closure (%s) that reads it before any write; never stored in the defining function' % reads_first[0][:60],
                                     'source': dbg_line(meta, u) or reads_first[1], 'closure_read': reads_first[1]})
    return examined, findings

def compile_tu(src, work, repo):
    out = os.path.join(work, 'irf_' + hashlib.sha1(src.encode()).hexdigest()[:12] + '.ll')
    p = subprocess.run(CLANG + ['-I%s/include' % repo, '-I%s/src' % repo, src, '-o', out], stdout=subprocess.PIPE, stderr=subprocess.PIPE, timeout=900)
    if p.returncode != 0: return None, p.stderr.decode()[-800:]
    return out, None

def run_all(repo, work, jobs=8):
    t0 = time.time()
    tus = tu_list(repo)
    ev = {'name': 'irfacts: definite initialisation of scalar stack slots (static fact on clang -O0 IR)', 'translation_units': len(tus), 'obligations': 0, 'discharged': 0,
          'violations': [], 'undecided': []}
    if len(tus) < 40:
        ev['undecided'].append('irfacts: only %d translation units found in src/CMakeLists.txt (expected ~52)' % len(tus))
    def one(src):
        ll, err = compile_tu(src, work, repo)
        if ll is None: return src, None, err
        try:
            n, f = analyse(ll)
        finally:
            try: os.remove(ll)
            except OSError: pass
        return src, (n, f), None
    with ThreadPoolExecutor(max_workers=max(2, jobs // 2)) as ex:
        res = list(ex.map(one, tus))
    seen = set()
    for src, r, err in res:
        if r is None:
            ev['undecided'].append('irfacts: clang failed on %s: %s' % (src, err)); continue
        n, fs = r
        ev['obligations'] += n; ev['discharged'] += n
        for f in fs:
            key = (f['function'], f['slot'])
            desc = 'definite initialisation: slot %s of %s (%s)' % (f['slot'], f['function'][:120], f['why'])
            ev['discharged'] -= 1
            if key in seen: ev['obligations'] -= 1; continue    # the same inline function in several TUs
            seen.add(key)
            ev['violations'].append({'desc': desc, 'function': f['function'], 'source': f.get('source'), 'detail': f,
                                     'replay': None})
    ev['wall_s'] = round(time.time() - t0, 1)
    return ev

if __name__ == '__main__':
    import tempfile, shutil
    w = tempfile.mkdtemp(prefix='irfacts_')
    try:
        ev = run_all(sys.argv[1] if len(sys.argv) > 1 else '/repo', w, 16)
        print(json.dumps(ev, indent=1)[:6000])
    finally:
        shutil.rmtree(w, ignore_errors=True)
