#!/usr/bin/env python3
"""ll2c: LLVM-14 textual IR (clang -O0, typed pointers) -> C for CBMC.

Deterministic subset translator with must-fire rules: anything that is not
understood aborts (exit 2).  It has no knowledge of libvata; everything that is
specific to a verification unit comes from the unit's unit.json:

  roots      mangled names (with @) of the functions to translate; callees defined
             in the module are followed transitively
  stubs      mangled names that must NOT be translated (a prototype is emitted;
             the body or contract comes from the unit's harness.c)
  verbatim   regular expressions; a callee in namespace std / __gnu_cxx / boost is
             translated only if it matches one of them, otherwise it has to be in
             `stubs` (abort)
  aliases    NAME -> type path, emitted as `#define NAME <C type>`:
               "T:%class.X"            the named IR type
               "T:%class.X/2/0"        field 2, then field 0 of it
               "P:@mangled/1"          type of parameter 1 of the function
               "P:@mangled/1/*"        ... its pointee;  further /k = field k
               "R:@mangled"            return type
  layout_guards   [[ "%class.X", "member_", 11 ], ...]  a GEP whose result is named
             after the member (clang keeps member names as value names) into that
             struct type must use exactly that field index, and at least one such
             GEP must exist in the translated code
  loop_guards     [[ "@mangled", "for.cond24", "substring" ], ...] the source line of
             the loop header must contain the substring
  opts       {"nsw_check": true, "shift_check": true}

See DESIGN.md 2.1, 2.2, 2.7 for what is translated and what is dropped.
"""
import re, sys, json, collections, os

class Abort(Exception):
    pass

def die(msg):
    raise Abort(msg)

# ---------------------------------------------------------------- tokenizer
TOK = re.compile(r'''
    \s+ |
    (?P<str>c?"(?:[^"\\]|\\.)*") |
    (?P<qid>[%@]"(?:[^"\\]|\\.)*") |
    (?P<id>[%@][-a-zA-Z$._0-9]+) |
    (?P<attrgrp>\#\d+) |
    (?P<comdat>\$[-a-zA-Z$._0-9]+|\$"(?:[^"\\]|\\.)*") |
    (?P<meta>![-a-zA-Z$._0-9]*) |
    (?P<num>0x[0-9A-Fa-f]+|-?\d+(?:\.\d+(?:e[+-]?\d+)?)?) |
    (?P<word>[a-zA-Z_][-a-zA-Z_0-9.]*) |
    (?P<dots>\.\.\.) |
    (?P<punct><\{|\}>|[()\[\]{}<>,=*:])
''', re.X)

def tokenize(s):
    out = []
    pos = 0
    n = len(s)
    while pos < n:
        if s[pos] == ';':
            break
        m = TOK.match(s, pos)
        if not m:
            die("tokenize: %r at %r" % (s[pos:pos+30], s[:200]))
        pos = m.end()
        if m.lastgroup:
            out.append((m.lastgroup, m.group(m.lastgroup)))
    return out

# ---------------------------------------------------------------- types
class Ty:
    pass
class IntTy(Ty):
    def __init__(s, bits): s.bits = bits
    def key(s): return 'i%d' % s.bits
class VoidTy(Ty):
    def key(s): return 'void'
class FloatTy(Ty):
    def __init__(s, k): s.k = k
    def key(s): return s.k
class PtrTy(Ty):
    def __init__(s, to): s.to = to
    def key(s): return s.to.key() + '*'
class ArrTy(Ty):
    def __init__(s, n, el): s.n = n; s.el = el
    def key(s): return '[%d x %s]' % (s.n, s.el.key())
class NamedTy(Ty):
    def __init__(s, name): s.name = name
    def key(s): return s.name
class LitStructTy(Ty):
    def __init__(s, fields, packed): s.fields = fields; s.packed = packed
    def key(s): return ('<{' if s.packed else '{') + ','.join(f.key() for f in s.fields) + ('}>' if s.packed else '}')
class FuncTy(Ty):
    def __init__(s, ret, params, varargs): s.ret = ret; s.params = params; s.varargs = varargs
    def key(s): return s.ret.key() + '(' + ','.join(p.key() for p in s.params) + (',...' if s.varargs else '') + ')'

class P:
    """token stream parser"""
    def __init__(s, toks): s.t = toks; s.i = 0
    def peek(s, k=0): return s.t[s.i+k] if s.i+k < len(s.t) else (None, None)
    def next(s):
        x = s.peek(); s.i += 1; return x
    def accept(s, v):
        if s.peek()[1] == v:
            s.i += 1; return True
        return False
    def expect(s, v):
        if not s.accept(v): die("expected %r got %r in %r" % (v, s.peek(), s.t[max(0,s.i-5):s.i+5]))
    def eof(s): return s.i >= len(s.t)

    def type(s):
        k, v = s.next()
        if k == 'word' and re.fullmatch(r'i\d+', v): t = IntTy(int(v[1:]))
        elif v == 'void': t = VoidTy()
        elif v in ('float', 'double', 'x86_fp80'): t = FloatTy(v)
        elif v == 'opaque': t = LitStructTy([], False); t.opaque = True
        elif k in ('id', 'qid') and v[0] == '%': t = NamedTy(v)
        elif v == '[':
            n = int(s.next()[1]); s.expect('x'); el = s.type(); s.expect(']'); t = ArrTy(n, el)
        elif v == '{' or v == '<{':
            close = '}' if v == '{' else '}>'
            fs = []
            if not s.accept(close):
                while True:
                    fs.append(s.type())
                    if s.accept(close): break
                    s.expect(',')
            t = LitStructTy(fs, v == '<{')
        elif v == '<':
            die("vector types unsupported")
        else:
            die("type? %r %r" % (k, v))
        while True:
            if s.accept('*'):
                t = PtrTy(t)
            elif s.peek()[1] == '(' :
                s.next(); ps = []; va = False
                if not s.accept(')'):
                    while True:
                        if s.accept('...'): va = True
                        else: ps.append(s.type())
                        if s.accept(')'): break
                        s.expect(',')
                t = FuncTy(t, ps, va)
            else:
                break
        return t

PARAM_ATTRS = {'noundef','nonnull','zeroext','signext','noalias','nocapture','readonly','writeonly','returned',
               'immarg','inreg','nest','readnone','swiftself','nofree','noreturn','nounwind'}
def skip_attrs(p):
    while True:
        k, v = p.peek()
        if v in PARAM_ATTRS: p.next(); continue
        if v in ('align',):
            p.next(); p.next(); continue
        if v in ('dereferenceable', 'dereferenceable_or_null'):
            p.next(); p.expect('('); p.next(); p.expect(')'); continue
        if v in ('sret', 'byval', 'byref', 'preallocated', 'inalloca', 'elementtype'):
            p.next()
            if p.accept('('): p.type(); p.expect(')')
            continue
        break

# ---------------------------------------------------------------- module
class Func:
    def __init__(s): s.blocks = collections.OrderedDict(); s.params = []; s.dbg = None
class Module:
    def __init__(s):
        s.types = collections.OrderedDict()
        s.globals = collections.OrderedDict()
        s.funcs = {}
        s.decls = {}
        s.meta = {}

LINK = {'linkonce_odr','dso_local','internal','weak_odr','hidden','private','available_externally','weak','linkonce',
        'unnamed_addr','local_unnamed_addr','external','protected','dso_preemptable'}

def parse_module(path):
    m = Module()
    cur = None; curblk = None
    with open(path) as f:
        lines = f.read().split('\n')
    for ln in lines:
        if cur is not None:
            if ln == '}':
                cur = None; continue
            st = ln.strip()
            if not st or st.startswith(';'): continue
            mm = re.match(r'^([-a-zA-Z$._0-9]+|"(?:[^"\\]|\\.)*"):', ln)
            if mm:
                curblk = mm.group(1)
                if curblk.startswith('"'): curblk = curblk[1:-1]
                cur.blocks[curblk] = []; continue
            lst = cur.blocks.setdefault(curblk, [])
            if lst and (ln.startswith('    ') or (re.match(r'^(%\S+ = )?switch ', lst[-1]) and '[' in lst[-1] and ']' not in lst[-1])):
                # continuation line: "to label .. unwind ..", switch cases, landingpad clauses
                lst[-1] = lst[-1] + ' ' + st
            else:
                lst.append(st)
            continue
        if not ln: continue
        c0 = ln[0]
        if c0 == '%' and ' = type ' in ln:
            name, rest = ln.split(' = type ', 1)
            m.types[name] = P(tokenize(rest)).type()
        elif c0 == '@':
            m.globals[ln.split(' = ', 1)[0]] = ln
        elif c0 == '!':
            mm = re.match(r'^(!\d+) = (.*)$', ln)
            if mm: m.meta[mm.group(1)] = mm.group(2)
        elif ln.startswith('define '):
            p = P(tokenize(ln))
            fn = Func()
            p.i = 1
            while p.peek()[1] in LINK or p.peek()[1] in PARAM_ATTRS: p.next()
            skip_attrs(p)
            fn.ret = p.type()
            fn.name = p.next()[1]
            if fn.name[0] != '@': die("define: name? " + ln[:120])
            p.expect('(')
            fn.varargs = False
            if not p.accept(')'):
                while True:
                    if p.accept('...'): fn.varargs = True
                    else:
                        t = p.type(); skip_attrs(p)
                        k, nm = p.peek()
                        if k in ('id', 'qid') and nm[0] == '%': p.next()
                        else: nm = '%' + str(len(fn.params))
                        fn.params.append((t, nm))
                    if p.accept(')'): break
                    p.expect(',')
            mm = re.search(r'!dbg (!\d+)', ln)
            fn.dbg = mm.group(1) if mm else None
            m.funcs[fn.name] = fn
            cur = fn
            curblk = str(len(fn.params))   # implicit label of the entry block when unnamed
            cur.blocks = collections.OrderedDict()
        elif ln.startswith('declare '):
            p = P(tokenize(ln)); p.i = 1
            while p.peek()[1] in PARAM_ATTRS or p.peek()[1] in LINK or p.peek()[1] in ('extern_weak',): p.next()
            skip_attrs(p)
            ret = p.type(); name = p.next()[1]; p.expect('(')
            ps = []; va = False
            if not p.accept(')'):
                while True:
                    if p.accept('...'): va = True
                    else:
                        ps.append(p.type()); skip_attrs(p)
                    if p.accept(')'): break
                    p.expect(',')
            m.decls[name] = (ret, ps, va)
    return m

class DebugInfo:
    """!dbg !N -> (file, line) through DILocation / DISubprogram / DILexicalBlockFile / DIFile"""
    def __init__(s, meta): s.meta = meta; s.cache = {}
    def field(s, txt, name):
        mm = re.search(r'\b%s: ([^,)]+)' % name, txt)
        return mm.group(1) if mm else None
    def file_of_scope(s, ref, depth=0):
        if ref in s.cache: return s.cache[ref]
        txt = s.meta.get(ref, '')
        r = None
        if 'DIFile' in txt:
            mm = re.search(r'filename: "([^"]*)"', txt); r = mm.group(1) if mm else None
        else:
            f = s.field(txt, 'file')
            if f and depth < 20: r = s.file_of_scope(f, depth + 1)
            elif s.field(txt, 'scope') and depth < 20: r = s.file_of_scope(s.field(txt, 'scope'), depth + 1)
        s.cache[ref] = r
        return r
    def loc(s, ref):
        txt = s.meta.get(ref, '')
        if 'DILocation' in txt:
            line = s.field(txt, 'line'); sc = s.field(txt, 'scope')
            return (s.file_of_scope(sc) if sc else None, int(line) if line else 0)
        if 'DISubprogram' in txt:
            line = s.field(txt, 'line')
            return (s.file_of_scope(ref), int(line) if line else 0)
        return (None, 0)

# ---------------------------------------------------------------- which pointer parameters may a function write through?
class ParamWrites:
    """Conservative interprocedural fact on the IR: index k is in writes(f) if a pointer derived from parameter k of f may be
    stored through, escapes (stored as a value, returned, converted to an integer) or is handed to a callee that may do so.
    Used only to keep the automatically generated loop frames small (a slot whose address is merely read by a callee is not
    havocked); an omission would make DFCC's frame check fail, never a proof pass."""
    VAL = r'(%"[^"]*"|%[-a-zA-Z$._0-9]+)'
    def __init__(s, m, opaque, declared=None):
        s.m = m; s.opaque = opaque; s.memo = {}; s.active = set(); s.declared = declared or {}
    def writes(s, f):
        if f in s.declared: return set(s.declared[f])      # unit.json "stub_writes": parameters a contract stub may write through
        if f in s.memo: return s.memo[f]
        fn = s.m.funcs.get(f)
        if fn is None or f in s.opaque: return None          # unknown body: may write through everything
        if f in s.active: return set()                       # recursion: optimistic, callers of the cycle head re-check
        s.active.add(f)
        try:
            r = s.compute(fn)
        finally:
            s.active.discard(f)
        s.memo[f] = r
        return r
    def compute(s, fn):
        der = {}                      # value -> set of param indices
        for i, (t, n) in enumerate(fn.params):
            if isinstance(t, PtrTy): der[n] = {i}
        addr_of = {}                  # alloca that holds a copy of the param pointer -> indices
        out = set()
        ins = [st for b in fn.blocks.values() for st in b]
        changed = True; rounds = 0
        while changed and rounds < 6:
            changed = False; rounds += 1
            for st in ins:
                mm = re.match(r'^' + s.VAL + r' = (\w+) (.*)$', st)
                res, op, rest = (mm.group(1), mm.group(2), mm.group(3)) if mm else (None, st.split(' ', 1)[0], st)
                used = [v for v in re.findall(s.VAL, rest if mm else st) if v in der]
                if op == 'store':
                    m2 = re.match(r'^store (?:atomic |volatile )*(.+?) ' + s.VAL + r', (.+?)\* ' + s.VAL + r'(?:,|$)', st)
                    if m2:
                        val, dst = m2.group(2), m2.group(4)
                        if dst in der: out |= der[dst]
                        if val in der:
                            if re.fullmatch(r'%[-a-zA-Z$._0-9]+\.addr|%"[^"]*\.addr"', dst) or dst in addr_of:
                                if addr_of.get(dst, set()) != addr_of.get(dst, set()) | der[val]:
                                    addr_of[dst] = addr_of.get(dst, set()) | der[val]; changed = True
                            else: out |= der[val]
                    continue
                if res is None and op not in ('call', 'invoke', 'tail', 'ret'): continue
                if op == 'load':
                    m2 = re.search(r', .+?\* ' + s.VAL, rest)
                    if m2 and m2.group(1) in addr_of:
                        if der.get(res, set()) != der.get(res, set()) | addr_of[m2.group(1)]:
                            der[res] = der.get(res, set()) | addr_of[m2.group(1)]; changed = True
                    continue
                if op in ('getelementptr', 'bitcast', 'phi', 'select'):
                    if op == 'getelementptr':
                        m2 = re.search(r'\* ' + s.VAL, rest); used = [m2.group(1)] if m2 and m2.group(1) in der else []
                    if used:
                        u = set().union(*[der[v] for v in used])
                        if der.get(res, set()) != der.get(res, set()) | u: der[res] = der.get(res, set()) | u; changed = True
                    continue
                if op in ('ptrtoint', 'ret'):
                    for v in used: out |= der[v]
                    continue
                if op in ('call', 'invoke', 'tail', 'musttail', 'notail') or (res and op in ('call', 'invoke')):
                    m2 = re.search(r'(@"[^"]*"|@[-a-zA-Z$._0-9]+)\((.*)\)', st)
                    if not m2:
                        for v in used: out |= der[v]
                        continue
                    callee = m2.group(1); args = s.split_args(m2.group(2))
                    cn = callee[1:]
                    if cn.startswith(('llvm.dbg', 'llvm.lifetime')): continue
                    cw = None
                    if cn.startswith(('llvm.memcpy', 'llvm.memmove', 'llvm.memset')): cw = {0}
                    else: cw = s.writes(callee)
                    for k, a in enumerate(args):
                        vs = [v for v in re.findall(s.VAL, a) if v in der]
                        if vs and (cw is None or k in cw):
                            for v in vs: out |= der[v]
                    continue
                # anything else that mentions a derived pointer: treat as escape
                if op not in ('icmp',):
                    for v in used: out |= der[v]
        return out
    def split_args(s, txt):
        out = []; depth = 0; cur = ''
        for ch in txt:
            if ch in '([{<': depth += 1
            elif ch in ')]}>': depth -= 1
            if ch == ',' and depth == 0: out.append(cur); cur = ''
            else: cur += ch
        if cur.strip(): out.append(cur)
        return out

# ---------------------------------------------------------------- C emission
def san(name):
    n = name[1:] if name[0] in '%@' else name
    if n.startswith('"'): n = n[1:-1]
    return re.sub(r'[^A-Za-z0-9_]', '_', n)

STD_RE = re.compile(r'^@_Z(N?K?)(St|Sa|Sb|Ss|Si|So|Sd|9__gnu_cxx|5boost)|^@_ZSt|^@_Z(eq|ne|lt|gt|le|ge|pl|mi)\w*(St|N9__gnu_cxx|N5boost|NSt|NKSt|RKSt|RSt|RKN9__gnu_cxx|RN9__gnu_cxx)')

class Emitter:
    def __init__(s, m):
        s.m = m
        s.tynames = {}
        s.used = set()
        s.lit = {}
        s.arr = {}
        s.typedefs = []   # ordered C text
        s.done_types = set()
        s.fwd = []
        s.pending = []

    def cname_of_named(s, name):
        if name not in s.tynames:
            base = 'S_' + san(name)
            c = base; k = 1
            while c in s.used:
                k += 1; c = base + '__%d' % k
            s.used.add(c); s.tynames[name] = c
        return s.tynames[name]

    def resolve(s, t):
        while isinstance(t, NamedTy):
            if t.name not in s.m.types: die("unknown type " + t.name)
            t = s.m.types[t.name]
        return t

    def ctype(s, t):
        """C type-specifier for t (arrays via typedef)."""
        if isinstance(t, IntTy):
            if t.bits == 1: return '_Bool'
            if t.bits in (8, 16, 32, 64): return 'uint%d_t' % t.bits
            if t.bits == 128: return 'unsigned __int128'
            die("int width %d" % t.bits)
        if isinstance(t, VoidTy): return 'void'
        if isinstance(t, FloatTy): return {'float': 'float', 'double': 'double', 'x86_fp80': 'long double'}[t.k]
        if isinstance(t, PtrTy):
            if isinstance(t.to, FuncTy): return 'FNPTR'
            if isinstance(t.to, VoidTy): return 'void*'
            return s.ctype(t.to) + '*'
        if isinstance(t, NamedTy):
            s.need_struct(t)
            return 'struct ' + s.cname_of_named(t.name)
        if isinstance(t, LitStructTy):
            k = t.key()
            if k not in s.lit:
                nm = 'L_%d' % len(s.lit); s.lit[k] = nm
                s.emit_struct(nm, t)
            return 'struct ' + s.lit[k]
        if isinstance(t, ArrTy):
            k = t.key()
            if k not in s.arr:
                el = s.ctype(t.el)
                nm = 'A_%d' % len(s.arr); s.arr[k] = nm
                s.typedefs.append('typedef %s %s[%d];' % (el, nm, max(t.n, 1)))
            return s.arr[k]
        if isinstance(t, FuncTy): return 'FNTY'
        die("ctype %r" % t)

    def need_struct(s, t):
        name = t.name
        s.cname_of_named(name)
        if name in s.done_types: return
        s.done_types.add(name)
        cn = s.cname_of_named(name)
        s.fwd.append('struct %s;' % cn)
        if name not in s.m.types: die("unknown type " + name)
        body = s.m.types[name]
        s.emit_struct(cn, body)

    def emit_struct(s, cn, body):
        if getattr(body, 'opaque', False):
            s.typedefs.append('struct %s { char opaque_; };' % cn); return
        if not isinstance(body, LitStructTy): die("named non-struct type %s" % cn)
        fs = []
        for i, f in enumerate(body.fields):
            fs.append('  %s f%d;' % (s.ctype_field(f), i))
        if not fs: fs = ['  char empty_;']
        s.typedefs.append('struct %s {\n%s\n}%s;' % (cn, '\n'.join(fs), ' __attribute__((packed))' if body.packed else ''))

    def ctype_field(s, f):
        if isinstance(f, PtrTy):
            t = f; depth = 0
            while isinstance(t, PtrTy): t = t.to; depth += 1
            if isinstance(t, NamedTy):
                cn = s.cname_of_named(t.name)
                if t.name not in s.done_types:
                    s.pending.append(t)
                return 'struct ' + cn + '*' * depth
        return s.ctype(f)

    def flush_pending(s):
        while s.pending:
            t = s.pending.pop()
            s.need_struct(t)

META_TAIL = re.compile(r'(?:,\s*![A-Za-z_.][-A-Za-z_.0-9]*\s+!(?:\d+|\{[^}]*\}))+\s*$')

class FnTranslator:
    def __init__(s, em, fn, opts, dbg):
        s.em = em; s.m = em.m; s.fn = fn; s.opts = opts; s.dbg = dbg
        s.vtypes = {}
        s.decls = []
        s.declared = set()
        s.callees = set()
        s.scoped_calls = set()
        s.scoped_pending = []
        s.globals_used = set()
        s.allocas = {}          # C name of alloca pointer -> C name of slot
        s.slot_alias = {}       # C name of derived pointer (constant GEP / bitcast of an alloca) -> (slot lvalue expr, slot base name)
        s.mentions = collections.defaultdict(set)  # block -> slot base names whose address is used other than by a direct load
        s.geps = []             # (result name, struct type name, first struct index) for layout guards
        s.throws = 0
        s.loop_lines = {}
        s.loop_label_of = {}
        s.cnames = {}
        s.nomention = False
        s.curblk = None
        for t, n in fn.params: s.vtypes[n] = t

    def lname(s, v):
        if re.fullmatch(r'%\d+', v): c = 't' + v[1:]
        else: c = 'v_' + san(v)
        prev = s.cnames.setdefault(c, v)
        if prev != v: die("local name collision %s / %s" % (prev, v))
        return c

    # ---- operand parsing: returns cexpr
    def value(s, p, ty):
        k, v = p.next()
        if k in ('id', 'qid'):
            if v[0] == '%':
                if v not in s.vtypes: s.vtypes[v] = ty  # forward ref (phi) - trust annotated type
                c = s.lname(v)
                if not s.nomention: s.note_mention(c)
                return c
            return s.globalref(v, ty)
        if k == 'num':
            if isinstance(ty, IntTy):
                n = int(v, 0)
                if n < 0: n += 1 << ty.bits
                if ty.bits == 1: return '((_Bool)%d)' % (n & 1)
                return '((%s)%dULL)' % (s.em.ctype(ty), n)
            if isinstance(ty, FloatTy):
                if v.startswith('0x'): die("hex float constant")
                return '((%s)%s)' % (s.em.ctype(ty), v)
            die("num for type %s" % ty.key())
        if v == 'true': return '((_Bool)1)'
        if v == 'false': return '((_Bool)0)'
        if v == 'null': return '((%s)0)' % s.em.ctype(ty)
        if v in ('undef', 'poison', 'zeroinitializer'):
            if isinstance(ty, (IntTy, PtrTy)): return '((%s)0)' % s.em.ctype(ty)
            return '((%s){0})' % s.em.ctype(ty)
        if v == 'getelementptr':
            p.accept('inbounds'); p.expect('(')
            bt = p.type(); p.expect(',')
            pt = p.type(); base = s.value(p, pt)
            idx = []
            while p.accept(','):
                p.accept('inrange')
                it = p.type(); idx.append((s.value(p, it), it))
            p.expect(')')
            e, rt = s.gep(bt, base, idx)
            return e
        if v in ('bitcast', 'inttoptr', 'ptrtoint'):
            p.expect('('); ft = p.type(); x = s.value(p, ft); p.expect('to'); tt = p.type(); p.expect(')')
            return '((%s)%s)' % (s.em.ctype(tt), x)
        die("value? %r %r" % (k, v))

    def note_mention(s, c):
        if c in s.allocas: s.mentions[s.curblk].add(s.allocas[c])
        elif c in s.slot_alias: s.mentions[s.curblk].add(s.slot_alias[c][1])

    def globalref(s, g, ty):
        if g in s.m.funcs or g in s.m.decls:
            # the address of a function as data (exception destructors, vtables): never callable here, indirect calls abort
            return '((%s)VERIF_fnaddr_)' % s.em.ctype(ty)
        s.globals_used.add(g)
        return '((%s)&G_%s)' % (s.em.ctype(ty), san(g))

    def gep(s, bt, base, idx):
        if len(idx) == 1 and isinstance(bt, IntTy) and bt.bits == 64 and not re.fullmatch(r'\(\(uint\d+_t\)\d+ULL\)', idx[0][0]):
            s.last_gep_struct = None
            return 'VERIF_IDX64(%s, %s)' % (base, idx[0][0]), PtrTy(bt)      # overridable: raw indexing of a word array
        e = '%s[%s]' % (base, idx[0][0])
        t = bt
        first_struct = None
        for (ie, it) in idx[1:]:
            rt = s.em.resolve(t)
            if isinstance(rt, LitStructTy):
                mm = re.fullmatch(r'\(\(uint\d+_t\)(\d+)ULL\)', ie)
                if not mm: die("non-constant struct index")
                k = int(mm.group(1))
                if first_struct is None: first_struct = (t.name if isinstance(t, NamedTy) else None, k)
                if k >= len(rt.fields): die("struct index out of range")
                e += '.f%d' % k; t = rt.fields[k]
            elif isinstance(rt, ArrTy):
                e += '[%s]' % ie; t = rt.el
            else:
                die("gep into %s" % rt.key())
        s.last_gep_struct = first_struct
        return '(&%s)' % e, PtrTy(t)

    def declare(s, v, ty):
        s.vtypes[v] = ty
        if v not in s.declared:
            s.declared.add(v); s.decls.append((v, ty))

    def translate(s):
        fn = s.fn; em = s.em
        succ = {}
        for b, ins in fn.blocks.items():
            if not ins: die("empty block %s in %s" % (b, fn.name))
            term = ins[-1]
            t0 = re.sub(r'^%\S+ = ', '', term)
            ss = []
            if t0.startswith('br ') or t0.startswith('switch '):
                ss = re.findall(r'label (%"[^"]*"|%[-a-zA-Z$._0-9]+)', t0)
            elif t0.startswith('invoke '):
                mm = re.search(r'to label (%"[^"]*"|%[-a-zA-Z$._0-9]+) unwind', t0)
                if not mm: die("invoke without normal destination: " + term[:100])
                ss = [mm.group(1)]
            elif t0.startswith(('ret ', 'ret', 'unreachable', 'resume ')):
                ss = []
            elif t0.startswith(('indirectbr', 'callbr', 'catchswitch', 'catchret', 'cleanupret')):
                die("unsupported terminator: " + t0[:60])
            else:
                die("block %s of %s does not end in a terminator: %s" % (b, fn.name, term[:80]))
            succ[b] = [s.blk(x) for x in ss]
        first = next(iter(fn.blocks))
        reach = set(); wl = [first]
        while wl:
            b = wl.pop()
            if b in reach: continue
            if b not in fn.blocks: die("branch to unknown block %s" % b)
            reach.add(b); wl.extend(succ.get(b, []))
        s.succ = succ; s.reach = reach
        s.find_loops(first)
        phis = collections.defaultdict(list)  # pred block -> [(dst C name, valexpr)]
        for b, ins in fn.blocks.items():
            if b not in reach: continue
            s.curblk = b
            for st in ins:
                mm = re.match(r'^(%"[^"]*"|%[-a-zA-Z$._0-9]+) = phi (.*)$', st)
                if mm:
                    body = META_TAIL.sub('', mm.group(2))
                    p = P(tokenize(body)); ty = p.type()
                    s.declare(mm.group(1), ty)
                    while True:
                        p.expect('[')
                        save = s.curblk
                        val = s.value(p, ty); p.expect(','); pred = s.blk(p.next()[1]); p.expect(']')
                        phis[pred].append((s.lname(mm.group(1)), val))
                        if not p.accept(','): break
        code = {}
        s.assigned = collections.defaultdict(set)   # block -> C lvalues assigned
        for b, ins in fn.blocks.items():
            if b not in reach: continue
            s.curblk = b
            lines = []
            for st in ins:
                dbg = None
                mm = re.search(r'!dbg (!\d+)', st)
                if mm: dbg = mm.group(1)
                st2 = META_TAIL.sub('', st)
                tag = ''
                if dbg:
                    f, l = s.dbg.loc(dbg)
                    if f and l: tag = ' /* @%s:%d */' % (f, l)
                    if b in s.loops and b not in s.loop_lines and f and l: s.loop_lines[b] = (f, l)
                for line in s.instr(st2, b, phis):
                    lines.append(line + tag)
            code[b] = lines
        if s.scoped_pending:
            def scoped_name(mm_):
                c_, h_ = s.scoped_pending[int(mm_.group(1))]
                lab_ = s.loop_label(h_) if h_ is not None else 'TOP'
                s.scoped_calls.add((c_, lab_)); return lab_
            for b_ in code: code[b_] = [re.sub(r'@SCOPE(\d+)@', scoped_name, ln_) for ln_ in code[b_]]
        order = [b for b in fn.blocks if b in reach]
        s.sunk = collections.defaultdict(list); s.sunk_names = set(); s.sunk_at = {}
        if s.opts.get('sink_locals') and s.loops:
            s.sink_locals(code, phis)
        body = s.emit_region(order, set(order), None, code, 1)
        ps = ', '.join('%s %s' % (em.ctype(t), s.lname(n)) for t, n in fn.params)
        if fn.varargs: die("varargs definition")
        hdr = '%s %s(%s)' % (em.ctype(fn.ret), san(fn.name), ps or 'void')
        decls = []
        for v, ty in s.decls:
            if s.lname(v) in s.sunk_names: continue
            decls.append('  %s %s;' % (em.ctype(ty), s.lname(v)))
        return hdr, decls, body

    def sink_locals(s, code, phis):
        """opts.sink_locals: a local (SSA temporary, or a stack slot together with its address variable) every occurrence of which
        lies inside one natural loop is declared at the top of that loop's body instead of at the top of the function.  Under a loop
        contract the two are equivalent (the local would be in the loop's frame and havocked at the loop head; it now is a fresh
        nondeterministic object per iteration); for an unwound loop it over-approximates (a value carried between iterations is lost).
        phi homes, parameters and every identifier that the unit's contracts.h / harness.c mention are never sunk."""
        ident = re.compile(r'\b(t\d+|v_[A-Za-z0-9_]+)\b')
        keep = set(s.opts.get('_keep_idents') or ())
        for moves in phis.values():
            for dst, _ in moves: keep.add(dst)
        for c_, sl_ in s.allocas.items():           # iterator slots of range-for loops: contracts name them through BEGIN_/END_ macros
            if re.fullmatch(r'v___(begin|end)\d*', c_): keep.add(c_); keep.add(sl_)
        occ = collections.defaultdict(set); init_line = {}
        for b, lines in code.items():
            for i, ln in enumerate(lines):
                ln2 = re.sub(r'/\*.*?\*/', '', ln)
                mm = re.fullmatch(r'\s*(\w+) = &(\w+);\s*', ln2)
                if mm and s.allocas.get(mm.group(1)) == mm.group(2):
                    init_line[mm.group(1)] = (b, i); continue
                for m_ in ident.finditer(ln2): occ[m_.group(1)].add(b)
        slot_of = dict(s.allocas); ptr_of = {v: k for k, v in s.allocas.items()}
        ctype = {s.lname(v): s.em.ctype(ty) for v, ty in s.decls}
        def innermost(blocks):
            best = None
            for h, body in s.loops.items():
                if blocks <= body and (best is None or len(body) < len(s.loops[best])): best = h
            return best
        kill = set()
        for v, ty in s.decls:
            c = s.lname(v)
            if c in keep or c in s.sunk_names: continue
            if c in ptr_of: continue                       # slots are handled with their address variable
            if c in slot_of:
                sl = slot_of[c]
                if sl in keep or c not in init_line: continue
                blocks = occ.get(c, set()) | occ.get(sl, set())
                if not blocks: continue
                h = innermost(blocks)
                if h is None: continue
                # DFCC (cbmc 6.11) registers a loop-local object in the loop's write set only if the loop assigns it DIRECTLY somewhere;
                # a slot that is only written through its address (by callees) would fail every frame check.  The slot is uninitialised
                # at this point anyway: give it its nondeterministic value by an explicit direct assignment.
                nd = 'nondet_VERIF_' + re.sub(r'\W', '_', ctype[sl].replace('*', '_p'))
                if not hasattr(s.em, 'nondets'): s.em.nondets = collections.OrderedDict()
                s.em.nondets[nd] = ctype[sl]
                s.sunk[h].append('%s %s; %s %s = &%s; %s = %s();' % (ctype[sl], sl, ctype[c], c, sl, sl, nd))
                s.sunk_names |= {c, sl}; s.sunk_at[c] = h; s.sunk_at[sl] = h; kill.add(init_line[c])
            else:
                blocks = occ.get(c, set())
                if not blocks: continue
                h = innermost(blocks)
                if h is None: continue
                s.sunk[h].append('%s %s;' % (ctype[c], c)); s.sunk_names.add(c); s.sunk_at[c] = h
        for b, i in kill: code[b][i] = '/* sunk: ' + re.sub(r'/\*.*?\*/', '', code[b][i]).strip() + ' */'

    def blk(s, ref):
        b = ref[1:] if ref[0] == '%' else ref
        if b.startswith('"'): b = b[1:-1]
        return b

    def find_loops(s, entry):
        succ = s.succ; nodes = [b for b in s.fn.blocks if b in s.reach]
        pred = collections.defaultdict(list)
        for u in nodes:
            for v in succ.get(u, []): pred[v].append(u)
        dom = {n: set(nodes) for n in nodes}; dom[entry] = {entry}
        changed = True
        while changed:
            changed = False
            for n in nodes:
                if n == entry: continue
                ps = [dom[p] for p in pred[n]]
                nd = set.intersection(*ps) | {n} if ps else {n}
                if nd != dom[n]: dom[n] = nd; changed = True
        loops = {}
        for u in nodes:
            for h in succ.get(u, []):
                if h in dom[u]:
                    body = loops.setdefault(h, {h})
                    wl = [u]
                    while wl:
                        x = wl.pop()
                        if x in body: continue
                        body.add(x); wl.extend(pred[x])
        for h, body in loops.items():
            for n in body:
                if n == h: continue
                for p_ in pred[n]:
                    if p_ not in body: die("irreducible loop at %s (entry into %s from %s)" % (h, n, p_))
        s.loops = loops
        # reducibility: the CFG minus the back edges found above must be acyclic
        back = set((u, h) for h, body in loops.items() for u in body if h in succ.get(u, []))
        color = {}
        def dfs(n):
            stack = [(n, iter(succ.get(n, [])))]; color[n] = 1
            while stack:
                x, it = stack[-1]
                for y in it:
                    if (x, y) in back or y not in s.reach: continue
                    if color.get(y, 0) == 1: die("irreducible control flow in %s: cycle through %s -> %s is not a natural loop" % (s.fn.name, x, y))
                    if color.get(y, 0) == 0:
                        color[y] = 1; stack.append((y, iter(succ.get(y, [])))); break
                else:
                    color[x] = 2; stack.pop()
        dfs(entry)

    def jump(s, frm, to):
        if to in s.loops:
            if frm in s.loops[to]: return 'goto L_%s_cont;' % s.blabel(to)
            return 'goto L_%s_pre;' % s.blabel(to)
        return 'goto %s;' % s.blabel(to)

    def emit_region(s, order, blocks, cur_header, code, depth):
        out = []; done = set(); ind = '  ' * depth
        for b in order:
            if b not in blocks or b in done: continue
            if b in s.loops and b != cur_header:
                lb = s.loops[b] & blocks
                fname = s.opts.get('_short', {}).get(s.fn.name, san(s.fn.name)); hl = s.loop_label(b)
                # range-for loops: stable names for the iterator slots compared in the loop header
                hdr_txt = ' '.join(re.sub(r'/\*.*?\*/', '', x) for x in code[b])
                # counting loops: a stable name for the loop variable = the one stack slot that the header reads and the loop assigns
                rd = set(re.findall(r'\b(v_[A-Za-z0-9_]+_slot)\b', hdr_txt)); wr = set().union(*[s.assigned[x] for x in lb])
                iv = sorted(x for x in rd & wr if not re.fullmatch(r'v___(begin|end)\d*_slot', x))
                if len(iv) == 1: out.append('#define IVAR_%s__%s %s' % (fname, hl, iv[0]))
                for kind in ('begin', 'end'):
                    ids = sorted(set(re.findall(r'\b(v___%s\d*)\b' % kind, hdr_txt)))
                    if len(ids) == 1 and ids[0] in s.allocas:
                        out.append('#define %s_%s__%s %s' % (kind.upper(), fname, hl, s.allocas[ids[0]]))
                out.append('L_%s_pre: ;' % s.blabel(b))
                out.append(ind + 'while (1)')
                asg = set().union(*[s.assigned[x] for x in lb]) | set().union(*[s.mentions[x] for x in lb])
                # a sunk local stays in the frame of the loops strictly INSIDE the loop it was sunk into (it is in scope and assigned there)
                asg = sorted(a for a in asg if a not in s.sunk_names or not (s.loops[s.sunk_at[a]] <= s.loops[b]))
                out.append('#ifndef LOOPASG_%s__%s\n#define LOOPASG_%s__%s\n#endif' % (fname, hl, fname, hl))
                out.append(ind + '__CPROVER_assigns(%s LOOPASG_%s__%s)' % (', '.join(asg) if asg else 'VERIF_dummy_', fname, hl))
                out.append('#ifdef LOOP_%s__%s\nLOOP_%s__%s\n#endif' % (fname, hl, fname, hl))
                out.append(ind + '{')
                for d in s.sunk.get(b, []): out.append(ind + '  ' + d + '   /* declared in the loop: no occurrence outside it */')
                out += s.emit_region(order, lb, b, code, depth + 1)
                out.append('L_%s_cont: ;' % s.blabel(b))
                out.append(ind + '}')
                done |= lb
            else:
                out.append('%s: ;' % s.blabel(b))
                for line in code[b]: out.append(ind + line)
                done.add(b)
        return out

    def loop_label(s, b):
        """unit.json loop_labels: [[fn, LABEL, source-substring(, ordinal)], ...] names the loops of fn by the text of their source line, so
        that contracts do not depend on LLVM's block numbering; when a function has labels every loop of it must get exactly one."""
        if b in s.loop_label_of: return s.loop_label_of[b]
        labs = [x for x in (s.opts.get('_loop_labels') or []) if x[0] == s.fn.name]
        if not labs:
            s.loop_label_of[b] = s.blabel(b); return s.loop_label_of[b]
        def text(h):
            fl = s.loop_lines.get(h)
            if not fl: die("loop label: no source line for loop %s of %s" % (h, s.fn.name))
            try: return open(fl[0]).read().split('\n')[fl[1] - 1]
            except Exception: die("loop label: cannot read %s:%d" % fl)
        hits = []
        for x in labs:
            lab, needle = x[1], x[2]; k = x[3] if len(x) > 3 else None
            cands = sorted([h for h in s.loops if needle in text(h)], key=lambda h: (s.loop_lines[h][1], -len(s.loops[h])))   # same line: the enclosing loop first
            if k is None:
                if b in cands:
                    if len(cands) != 1: die("loop label %s of %s: %d loops contain %r (give an ordinal)" % (lab, s.fn.name, len(cands), needle))
                    hits.append(lab)
            elif 1 <= k <= len(cands) and cands[k - 1] == b: hits.append(lab)
        if len(hits) != 1: die("loop label: loop %s of %s (%r) matches %d labels" % (b, s.fn.name, text(b).strip(), len(hits)))
        s.loop_label_of[b] = 'L_' + hits[0].rstrip('?'); return s.loop_label_of[b]

    def blabel(s, b):
        return 'B_' + re.sub(r'[^A-Za-z0-9_]', '_', b)

    def instr(s, st, b, phis):
        s.cur_block = b
        em = s.em
        out = []
        mm = re.match(r'^(%"[^"]*"|%[-a-zA-Z$._0-9]+) = (.*)$', st)
        res = None
        if mm: res, st = mm.group(1), mm.group(2)
        p = P(tokenize(st))
        k, op = p.next()
        def setres(ty, expr):
            s.declare(res, ty)
            s.assigned[b].add(s.lname(res))
            out.append('%s = %s;' % (s.lname(res), expr))
        def lval(ptrexpr):
            """(C lvalue for *ptrexpr, slot base name or None)"""
            if ptrexpr in s.allocas: return s.allocas[ptrexpr], s.allocas[ptrexpr]
            if ptrexpr in s.slot_alias: return s.slot_alias[ptrexpr]
            return '*%s' % ptrexpr, None
        if op == 'alloca':
            ty = p.type()
            if p.accept(','):
                if p.peek()[1] != 'align': die("dynamic alloca")
            s.decls.append((res + '.slot', ty)); s.declared.add(res + '.slot')
            s.declare(res, PtrTy(ty))
            s.allocas[s.lname(res)] = s.lname(res + '.slot')
            out.append('%s = &%s;' % (s.lname(res), s.lname(res + '.slot')))
        elif op == 'load':
            p.accept('atomic'); p.accept('volatile')
            ty = p.type(); p.expect(','); pt = p.type()
            s.nomention = True; ptr = s.value(p, pt); s.nomention = False
            lv, base = lval(ptr)
            setres(ty, lv)
        elif op == 'store':
            p.accept('atomic'); p.accept('volatile')
            ty = p.type(); v = s.value(p, ty); p.expect(','); pt = p.type()
            s.nomention = True; ptr = s.value(p, pt); s.nomention = False
            lv, base = lval(ptr)
            if base is not None: s.assigned[b].add(base)
            out.append('%s = %s;' % (lv, v))
        elif op == 'getelementptr':
            p.accept('inbounds')
            bt = p.type(); p.expect(','); pt = p.type()
            s.nomention = True; base = s.value(p, pt); s.nomention = False
            idx = []
            while p.accept(','):
                it = p.type(); idx.append((s.value(p, it), it))
            e, rt = s.gep(bt, base, idx)
            if not ((base in s.allocas or base in s.slot_alias) and all(re.fullmatch(r'\(\(uint\d+_t\)\d+ULL\)', ie) for ie, _ in idx)):
                s.note_mention(base)
            if s.last_gep_struct and s.last_gep_struct[0]:
                s.geps.append((res, s.last_gep_struct[0], s.last_gep_struct[1]))
            # constant GEP of a stack slot: remember the slot lvalue it denotes
            if (base in s.allocas or base in s.slot_alias) and all(re.fullmatch(r'\(\(uint\d+_t\)\d+ULL\)', ie) for ie, _ in idx) \
               and re.fullmatch(r'\(\(uint\d+_t\)0ULL\)', idx[0][0]):
                blv, bbase = lval(base)
                path = e[2:-1][len(base) + len('[%s]' % idx[0][0]):]   # ".fK[..]..." part
                s.slot_alias[s.lname(res)] = (blv + path, bbase)
            setres(rt, e)
        elif op in ('bitcast', 'inttoptr', 'ptrtoint', 'trunc', 'zext', 'addrspacecast'):
            if op == 'addrspacecast': die("addrspacecast")
            ft = p.type()
            s.nomention = (op == 'bitcast'); v = s.value(p, ft); s.nomention = False
            p.expect('to'); tt = p.type()
            if isinstance(ft, IntTy) and ft.bits == 1 and op == 'zext':
                setres(tt, '(%s)(%s ? 1 : 0)' % (em.ctype(tt), v))
            else:
                setres(tt, '(%s)%s' % (em.ctype(tt), v))
            if op == 'bitcast' and (v in s.allocas or v in s.slot_alias):
                # pointer to the same slot under another type: keep the base for the frame, no direct lvalue
                base = s.allocas.get(v) or s.slot_alias[v][1]
                s.slot_alias[s.lname(res)] = ('(*%s)' % s.lname(res), base)
        elif op == 'sext':
            ft = p.type(); v = s.value(p, ft); p.expect('to'); tt = p.type()
            if ft.bits == 1: setres(tt, '(%s)(%s ? -1 : 0)' % (em.ctype(tt), v))
            else: setres(tt, '(%s)(int%d_t)(int%d_t)%s' % (em.ctype(tt), tt.bits, ft.bits, v))
        elif op in ('add', 'sub', 'mul', 'and', 'or', 'xor', 'shl', 'lshr', 'udiv', 'urem', 'sdiv', 'srem', 'ashr'):
            flags = set()
            while p.peek()[1] in ('nuw', 'nsw', 'exact'): flags.add(p.next()[1])
            ty = p.type(); a = s.value(p, ty); p.expect(','); bb = s.value(p, ty)
            if not isinstance(ty, IntTy): die("arith on non-int")
            ct = em.ctype(ty)
            sym = {'add': '+', 'sub': '-', 'mul': '*', 'and': '&', 'or': '|', 'xor': '^', 'shl': '<<', 'lshr': '>>', 'udiv': '/', 'urem': '%'}
            if ty.bits == 1:
                if op in ('and', 'or', 'xor'): setres(ty, '(_Bool)(%s %s %s)' % (a, sym[op], bb))
                else: die("i1 arith " + op)
            else:
                if op in ('add', 'sub', 'mul') and s.opts.get('nsw_check', True):
                    f = {'add': 'plus', 'sub': 'minus', 'mul': 'mult'}[op]
                    if 'nsw' in flags:
                        out.append('__CPROVER_assert(!__CPROVER_overflow_%s((int%d_t)%s,(int%d_t)%s), "UB: signed overflow (nsw %s)");' % (f, ty.bits, a, ty.bits, bb, op))
                    if 'nuw' in flags:
                        out.append('__CPROVER_assert(!__CPROVER_overflow_%s(%s,%s), "UB: unsigned overflow (nuw %s)");' % (f, a, bb, op))
                if op in ('shl', 'lshr', 'ashr') and s.opts.get('shift_check', True):
                    out.append('__CPROVER_assert(%s < %d, "UB: shift amount in range");' % (bb, ty.bits))
                if op in ('udiv', 'urem', 'sdiv', 'srem'):
                    out.append('__CPROVER_assert(%s != 0, "UB: division by zero");' % bb)
                if op in ('udiv', 'urem') and ty.bits == 64:
                    setres(ty, 'VERIF_%s64(%s, %s)' % (op.upper(), a, bb))      # overridable: a unit may treat a division as uninterpreted
                elif op in sym:
                    setres(ty, '(%s)(%s %s %s)' % (ct, a, sym[op], bb))
                else:
                    sg = 'int%d_t' % ty.bits
                    o = {'sdiv': '/', 'srem': '%', 'ashr': '>>'}[op]
                    setres(ty, '(%s)((%s)%s %s (%s)%s)' % (ct, sg, a, o, sg, bb))
        elif op == 'icmp':
            pred = p.next()[1]; ty = p.type(); a = s.value(p, ty); p.expect(','); bb = s.value(p, ty)
            u = {'eq': '==', 'ne': '!=', 'ult': '<', 'ule': '<=', 'ugt': '>', 'uge': '>='}
            sg = {'slt': '<', 'sle': '<=', 'sgt': '>', 'sge': '>='}
            if pred in u:
                if isinstance(ty, PtrTy) and pred not in ('eq', 'ne'):
                    setres(IntTy(1), '((uint64_t)%s %s (uint64_t)%s)' % (a, u[pred], bb))
                else:
                    setres(IntTy(1), '(%s %s %s)' % (a, u[pred], bb))
            else:
                if not isinstance(ty, IntTy): die("signed compare on non-int")
                t = 'int%d_t' % ty.bits
                setres(IntTy(1), '((%s)%s %s (%s)%s)' % (t, a, sg[pred], t, bb))
        elif op == 'select':
            ct = p.type(); c = s.value(p, ct); p.expect(','); ty = p.type(); a = s.value(p, ty); p.expect(','); p.type(); bb = s.value(p, ty)
            setres(ty, '(%s ? %s : %s)' % (c, a, bb))
        elif op == 'phi':
            pass  # handled via moves on the incoming edges
        elif op == 'br':
            if p.accept('label'):
                d = s.blk(p.next()[1])
                out += s.edge_moves(b, d, phis)
                out.append(s.jump(b, d))
            else:
                ty = p.type(); c = s.value(p, ty); p.expect(','); p.expect('label'); d1 = s.blk(p.next()[1]); p.expect(','); p.expect('label'); d2 = s.blk(p.next()[1])
                m1 = s.edge_moves(b, d1, phis); m2 = s.edge_moves(b, d2, phis)
                out.append('if (%s) { %s %s } else { %s %s }' % (c, ' '.join(m1), s.jump(b, d1), ' '.join(m2), s.jump(b, d2)))
        elif op == 'switch':
            ty = p.type(); v = s.value(p, ty); p.expect(','); p.expect('label'); dflt = s.blk(p.next()[1])
            p.expect('[')
            cases = []
            while not p.accept(']'):
                ct = p.type(); cv = s.value(p, ct); p.expect(','); p.expect('label'); d = s.blk(p.next()[1])
                cases.append((cv, d))
            for cv, d in cases:
                out.append('if (%s == %s) { %s %s }' % (v, cv, ' '.join(s.edge_moves(b, d, phis)), s.jump(b, d)))
            out += s.edge_moves(b, dflt, phis)
            out.append(s.jump(b, dflt))
        elif op == 'ret':
            ty = p.type()
            if isinstance(ty, VoidTy): out.append('return;')
            else: out.append('return %s;' % s.value(p, ty))
        elif op == 'unreachable':
            out.append('__CPROVER_assume(0);')
        elif op in ('call', 'invoke', 'tail', 'musttail', 'notail'):
            if op in ('tail', 'musttail', 'notail'): p.expect('call')
            while p.peek()[1] in ('fastcc', 'ccc'): p.next()
            skip_attrs(p)
            rty = p.type()
            if isinstance(rty, FuncTy): rty = rty.ret  # explicit fn type given for varargs
            elif isinstance(rty, PtrTy) and isinstance(rty.to, FuncTy): rty = rty.to.ret
            k2, callee = p.next()
            if not (k2 in ('id', 'qid') and callee[0] == '@'):
                die("indirect call in %s: %s" % (s.fn.name, st[:120]))
            p.expect('(')
            args = []
            cn_ = callee[1:]
            if cn_.startswith(('llvm.memcpy', 'llvm.memmove', 'llvm.memset')): cw = {0}
            elif s.opts.get('_pw') is not None: cw = s.opts['_pw'].writes(callee)
            else: cw = None
            if not p.accept(')'):
                while True:
                    at = p.type(); skip_attrs(p)
                    k_arg = len(args)
                    s.nomention = (cw is not None and k_arg not in cw)
                    args.append(s.value(p, at)); s.nomention = False
                    if p.accept(')'): break
                    p.expect(',')
            call = s.call(callee, args, rty)
            if call is not None:
                if res and not isinstance(rty, VoidTy): setres(rty, call)
                else: out.append(call + ';')
            if op == 'invoke':
                mm2 = re.search(r'to label (%"[^"]*"|%[-a-zA-Z$._0-9]+) unwind', st)
                d = s.blk(mm2.group(1))
                out += s.edge_moves(b, d, phis)
                out.append(s.jump(b, d))
        elif op == 'extractvalue':
            ty = p.type(); v = s.value(p, ty); e = v; t = ty
            while p.accept(','):
                k3 = int(p.next()[1]); rt = em.resolve(t)
                if isinstance(rt, ArrTy): e += '[%d]' % k3; t = rt.el
                else: e += '.f%d' % k3; t = rt.fields[k3]
            setres(t, e)
        elif op == 'insertvalue':
            ty = p.type(); v = s.value(p, ty); p.expect(','); et = p.type(); ev = s.value(p, et)
            s.declare(res, ty)
            s.assigned[b].add(s.lname(res))
            out.append('%s = %s;' % (s.lname(res), v))
            e = s.lname(res); t = ty
            while p.accept(','):
                k3 = int(p.next()[1]); rt = em.resolve(t)
                if isinstance(rt, ArrTy): e += '[%d]' % k3; t = rt.el
                else: e += '.f%d' % k3; t = rt.fields[k3]
            out.append('%s = %s;' % (e, ev))
        elif op in ('cmpxchg', 'atomicrmw', 'fence'):
            die("atomic instruction %s (unit must stub the enclosing function)" % op)
        else:
            die("unsupported instruction in %s: %s" % (s.fn.name, st[:120]))
        return out

    def edge_moves(s, b, d, phis):
        mv = [(dst, val) for (dst, val) in phis.get(b, []) if dst in s.phi_home_of(d)]
        if not mv: return []
        out = []
        for i, (dst, val) in enumerate(mv): out.append('__typeof__(%s) pc%d_ = %s;' % (dst, i, val))
        for i, (dst, val) in enumerate(mv):
            out.append('%s = pc%d_;' % (dst, i)); s.assigned[b].add(dst)
        return ['{ ' + ' '.join(out) + ' }']

    def phi_home_of(s, d):
        if d not in s.__dict__.setdefault('_ph', {}):
            hs = set()
            for st in s.fn.blocks[d]:
                mm = re.match(r'^(%"[^"]*"|%[-a-zA-Z$._0-9]+) = phi ', st)
                if mm: hs.add(s.lname(mm.group(1)))
            s._ph[d] = hs
        return s._ph[d]

    def call(s, callee, args, rty):
        n = callee[1:]
        if n.startswith('llvm.memcpy') or n.startswith('llvm.memmove'):
            f = 'memcpy' if 'memcpy' in n else 'memmove'
            if re.fullmatch(r'\(\(uint\d+_t\)\d+ULL\)', args[2]): return '%s(%s, %s, %s)' % (f, args[0], args[1], args[2])
            return 'VERIF_%s_dyn(%s, %s, %s)' % (f, args[0], args[1], args[2])
        if n.startswith('llvm.memset'):
            if re.fullmatch(r'\(\(uint\d+_t\)\d+ULL\)', args[2]): return 'memset(%s, %s, %s)' % (args[0], args[1], args[2])
            return 'VERIF_memset_dyn(%s, %s, %s)' % (args[0], args[1], args[2])
        if n.startswith('llvm.dbg') or n.startswith('llvm.lifetime') or n.startswith('llvm.experimental.noalias'):
            return None
        if n == 'llvm.trap': return '__CPROVER_assert(0, "UB: llvm.trap reached"); __CPROVER_assume(0)'
        if n == '__assert_fail': return '__CPROVER_assert(0, "developer assertion"); __CPROVER_assume(0)'
        if n in ('_Znwm', '_Znam'): return '((uint8_t*)VERIF_new(%s))' % args[0]
        if n in ('_ZdlPv', '_ZdaPv', '_ZdlPvm', '_ZdaPvm'): return 'VERIF_delete(%s)' % args[0]
        if n in ('__cxa_throw', '__cxa_rethrow', '_ZSt9terminatev', '__cxa_pure_virtual', '__clang_call_terminate', 'abort') or (n.startswith('_ZSt') and '__throw_' in n):
            s.throws += 1
            return 'VERIF_throw()'
        if n == '__cxa_allocate_exception': return '((uint8_t*)VERIF_new(%s))' % args[0]
        if n.startswith('llvm.'): die("intrinsic " + n)
        s.callees.add(callee)
        if callee in (s.opts.get('_loop_scoped') or ()):
            # unit option loop_scoped_stubs: the stub is called under a name that carries the label of the innermost enclosing loop of the
            # call (TOP outside every loop), so that a harness can give two traversals of the same container type different cells
            best = None; b = getattr(s, 'cur_block', None)
            for h, body in s.loops.items():
                if b in body and (best is None or len(body) < len(s.loops[best])): best = h
            s.scoped_pending.append((callee, best))
            return '%s__@SCOPE%d@(%s)' % (san(callee), len(s.scoped_pending) - 1, ', '.join(args))
        return '%s(%s)' % (san(callee), ', '.join(args))


PRELUDE = r'''/* generated by /verif/extract/ll2c.py -- do not edit */
#include <stdint.h>
#include <stddef.h>
#include <string.h>
#include <stdlib.h>
typedef void (*FNPTR)(void);
static uint64_t VERIF_dummy_;
static void VERIF_fnaddr_(void) { __CPROVER_assert(0, "call through a function address that the translation does not model"); }
#ifndef VERIF_CUSTOM_RUNTIME
static void* VERIF_new(uint64_t n) { void* p = malloc(n); __CPROVER_assume(p != 0); return p; }
static void VERIF_delete(void* p) { free(p); }
#else
void* VERIF_new(uint64_t n); void VERIF_delete(void* p);   /* supplied by the harness */
#endif
static void VERIF_throw(void) { __CPROVER_assume(0); }
void* VERIF_memcpy_witness(void* d, const void* s, uint64_t n);   /* a unit may supply the contract of a variable-length memcpy */
#ifndef VERIF_memcpy_dyn
#define VERIF_memcpy_dyn memcpy
#endif
#ifndef VERIF_memmove_dyn
#define VERIF_memmove_dyn memmove
#endif
#ifndef VERIF_memset_dyn
#define VERIF_memset_dyn memset
#endif
#ifndef VERIF_UDIV64
#define VERIF_UDIV64(a, b) ((uint64_t)((a) / (b)))
#define VERIF_UREM64(a, b) ((uint64_t)((a) % (b)))
#endif
#ifndef VERIF_IDX64
#define VERIF_IDX64(base, i) (&(base)[i])
#endif
uint64_t VERIF_udiv_hook(uint64_t a, uint64_t b); uint64_t VERIF_urem_hook(uint64_t a, uint64_t b); uint64_t* VERIF_idx_hook(uint64_t* base, uint64_t i);
'''

def resolve_alias(em, m, spec):
    parts = spec.split('/')
    head = parts[0]
    if head.startswith('T:'):
        t = NamedTy(head[2:])
        if t.name not in m.types: die("alias: unknown type %s" % t.name)
    elif head.startswith('P:'):
        f = head[2:]
        if f in m.funcs: ps = [t for t, _ in m.funcs[f].params]
        elif f in m.decls: ps = m.decls[f][1]
        else: die("alias: unknown function %s" % f)
        k = int(parts[1]); parts = parts[1:]
        if k >= len(ps): die("alias: parameter index out of range in %s" % spec)
        t = ps[k]
    elif head.startswith('R:'):
        f = head[2:]
        if f in m.funcs: t = m.funcs[f].ret
        elif f in m.decls: t = m.decls[f][0]
        else: die("alias: unknown function %s" % f)
    else:
        die("alias spec? " + spec)
    return resolve_alias_steps(em, m, spec, t, parts[1:])

def resolve_alias_steps(em, m, spec, t, steps):
    for step in steps:
        if step == '*':
            if not isinstance(t, PtrTy): die("alias %s: not a pointer" % spec)
            t = t.to
        else:
            rt = em.resolve(t)
            if isinstance(rt, ArrTy): t = rt.el
            elif isinstance(rt, LitStructTy):
                k = int(step)
                if k >= len(rt.fields): die("alias %s: field out of range" % spec)
                t = rt.fields[k]
            else: die("alias %s: cannot step into %s" % (spec, rt.key()))
    return t

def translate(path, cfg):
    roots = cfg['roots']; stubs = set(cfg.get('stubs', [])); opts = cfg.get('opts') or {}
    verb = [re.compile(x) for x in cfg.get('verbatim', [])]
    opts = dict(opts); opts['_short'] = {mangled: name for name, mangled in (cfg.get('names') or {}).items()}
    m = parse_module(path)
    dbg = DebugInfo(m.meta)
    em = Emitter(m)
    # callees whose body the proofs do not see (stubs, library functions off the verbatim list) may write through any pointer
    opaque = set(stubs) | set(f for f in m.funcs if STD_RE.search(f) and not any(v.search(f) for v in verb))
    opts['_pw'] = ParamWrites(m, opaque, cfg.get('stub_writes'))
    opts['_loop_labels'] = cfg.get('loop_labels') or []
    opts['_loop_scoped'] = set(cfg.get('loop_scoped_stubs') or [])
    for f_ in opts['_loop_scoped']:
        if f_ not in stubs: die('loop_scoped_stubs: %s is not listed under stubs' % f_)
    if opts.get('sink_locals') and cfg.get('dir'):
        ktxt = ''
        for fn_ in ('contracts.h', 'harness.c'):
            kp = os.path.join(cfg['dir'], fn_)
            if os.path.exists(kp): ktxt += open(kp).read()
        opts['_keep_idents'] = set(re.findall(r'\b(t\d+|v_[A-Za-z0-9_]+)\b', ktxt))
    todo = list(reversed(roots)); done = collections.OrderedDict()
    protos = collections.OrderedDict()
    all_globals = set()
    info = {'functions': [], 'loops': [], 'throws': {}, 'stubs_used': [], 'geps': [], 'missing_std': []}
    for r in roots:
        if r not in m.funcs: die("root symbol missing from the IR (renamed / signature changed / no longer instantiated): " + r)
    fts = {}
    while todo:
        f = todo.pop()
        if f in done or f in protos: continue
        if f in stubs or f not in m.funcs:
            if f in m.funcs:
                fn = m.funcs[f]; protos[f] = (fn.ret, [t for t, _ in fn.params])
            elif f in m.decls:
                if f not in stubs:
                    if opts.get('list_only'): info['missing_std'].append(f)
                    else: die("call to external function %s which is neither stubbed nor in the runtime map" % f)
                protos[f] = (m.decls[f][0], m.decls[f][1])
            else: die("unknown callee " + f)
            continue
        if STD_RE.search(f) and f not in roots and not any(v.search(f) for v in verb):
            info['missing_std'].append(f)
            fn = m.funcs[f]; protos[f] = (fn.ret, [t for t, _ in fn.params])
            continue
        ft = FnTranslator(em, m.funcs[f], opts, dbg)
        done[f] = ft.translate()
        fts[f] = ft
        all_globals |= ft.globals_used
        todo.extend(sorted(ft.callees, reverse=True))
    if info['missing_std'] and not opts.get('list_only'):
        die("library callees that are neither stubbed nor on the verbatim list:\n  " + "\n  ".join(sorted(info['missing_std'])))
    # stubs listed but never called: drift guard
    for f in sorted(stubs):
        if f not in protos:
            if f in m.funcs: fn = m.funcs[f]; protos[f] = (fn.ret, [t for t, _ in fn.params]); info.setdefault('stubs_unused', []).append(f)
            elif f in m.decls: protos[f] = (m.decls[f][0], m.decls[f][1]); info.setdefault('stubs_unused', []).append(f)
            else: info.setdefault('stubs_missing', []).append(f)   # no longer called / instantiated: nothing to replace
    # layout guards
    for (tyname, member, index) in cfg.get('layout_guards', []):
        if tyname[:2] in ('T:', 'P:', 'R:'):
            rt_ = resolve_alias(em, m, tyname)
            if not isinstance(rt_, NamedTy): die("layout guard %s does not denote a named struct" % tyname)
            tyname = rt_.name
        hits = 0
        for f, ft in fts.items():
            for (res, tn, k) in ft.geps:
                rn = res[1:].strip('"')
                if tn == tyname and re.fullmatch(re.escape(member) + r'\d*', rn):
                    hits += 1
                    if k != index: die("layout guard failed: %s::%s is field %d, contracts expect %d" % (tyname, member, k, index))
        if hits == 0: die("layout guard did not fire: no access to %s::%s in the translated code" % (tyname, member))
    for x in cfg.get('loop_labels') or []:
        if x[0] not in fts: die("loop label: function %s not translated" % x[0])
        if x[1].endswith('?'): continue        # optional label: the loop may be absent (its contract macros are then unused; the function's postconditions decide)
        if 'L_' + x[1] not in fts[x[0]].loop_label_of.values(): die("loop label did not fire: %s has no loop for %s (%r)" % (x[0], x[1], x[2]))
    # loop guards
    for (fname, header, needle) in cfg.get('loop_guards', []):
        if fname not in fts: die("loop guard: function %s not translated" % fname)
        ft = fts[fname]
        if header not in ft.loops: die("loop guard: %s has no loop with header %s" % (fname, header))
        fl = ft.loop_lines.get(header)
        if not fl: die("loop guard: no source line for loop %s of %s" % (header, fname))
        try:
            src = open(fl[0]).read().split('\n')[fl[1] - 1]
        except Exception as e:
            die("loop guard: cannot read %s:%d" % fl)
        if needle not in src: die("loop guard failed: %s:%d is %r, expected to contain %r" % (fl[0], fl[1], src.strip(), needle))
    gl = []
    for g in sorted(all_globals):
        ln = m.globals.get(g)
        if ln is None: die("unknown global " + g)
        mm = re.match(r'^\S+ = (?:[a-z_]+ )*?(?:global|constant) (.*)$', ln)
        if not mm: die("global definition? " + ln[:100])
        p = P(tokenize(mm.group(1))); ty = p.type()
        gl.append('%s G_%s;  /* initializer dropped */' % (em.ctype(ty), san(g)))
    sigs = []
    for f, (hdr, decls, body) in done.items(): sigs.append(hdr + ';')
    def stub_ty(t):
        # unit option stub_void_ptrs: pointers to structs in the prototypes of contract stubs become void* (the stubs cast where they look inside)
        if cfg.get('stub_void_ptrs') and isinstance(t, PtrTy) and isinstance(t.to, (NamedTy, LitStructTy)): return 'void*'
        return em.ctype(t)
    scoped = {}
    for f_, ft_ in fts.items():
        for (c_, lab_) in sorted(ft_.scoped_calls): scoped.setdefault(c_, []).append(lab_)
    for f, (ret, ps) in protos.items():
        if f in scoped:
            for lab_ in sorted(set(scoped[f])): sigs.append('%s %s__%s(%s);' % (stub_ty(ret), san(f), lab_, ', '.join(stub_ty(t) for t in ps) or 'void'))
        elif f in stubs: sigs.append('%s %s(%s);' % (stub_ty(ret), san(f), ', '.join(stub_ty(t) for t in ps) or 'void'))
        else: sigs.append('%s %s(%s);' % (em.ctype(ret), san(f), ', '.join(em.ctype(t) for t in ps) or 'void'))
    aliases = []
    for name, spec in (cfg.get('aliases') or {}).items():
        aliases.append('#define %s %s' % (name, em.ctype(resolve_alias(em, m, spec))))
    short = {}
    for name, mangled in (cfg.get('names') or {}).items():
        short[mangled] = name
        aliases.append('#define %s %s' % (name, san(mangled)))
        for lab_ in sorted(set(scoped.get(mangled, []))): aliases.append('#define %s__%s %s__%s' % (name, lab_, san(mangled), lab_))
    em.flush_pending()
    out = [PRELUDE]
    out += em.fwd
    out += em.typedefs
    out += gl
    out.append('/* ---- type aliases requested by the unit */')
    out += aliases
    for nd, ct in getattr(em, 'nondets', {}).items(): out.append('%s %s(void);   /* no body: a nondeterministic value */' % (ct, nd))
    out.append('/* ---- prototypes */')
    out += sigs
    out.append('#ifdef CONTRACTS\n#include CONTRACTS\n#endif')
    for f, (hdr, decls, body) in done.items():
        ft = fts[f]
        floc = dbg.loc(m.funcs[f].dbg) if m.funcs[f].dbg else (None, 0)
        out.append('\n/* %s  @%s:%s */' % (f, floc[0], floc[1]))
        out.append(hdr)
        cn = short.get(f, san(f))
        out.append('#ifndef STUB_%s   /* a harness may replace this body by the function\'s contract stub */' % cn)
        out.append('#ifdef CONTRACT_%s\nCONTRACT_%s\n#endif' % (cn, cn))
        out.append('{')
        out += decls
        out += body
        out.append('}')
        out.append('#else\n;\n#endif')
        info['functions'].append({'name': f, 'file': floc[0], 'line': floc[1], 'throws': ft.throws,
                                  'loops': [{'header': h, 'macro': 'LOOP_%s__%s' % (cn, ft.loop_label(h)), 'line': ft.loop_lines.get(h)} for h in ft.loops]})
    info['stubs_used'] = [f for f in protos]
    return '\n'.join(out) + '\n', info

if __name__ == '__main__':
    cfg = json.load(open(sys.argv[2]))
    if len(sys.argv) > 4 and sys.argv[4] == '--list':
        cfg.setdefault('opts', {})['list_only'] = True
    try:
        txt, info = translate(sys.argv[1], cfg)
    except Abort as e:
        print("EXTRACTION-ABORT:", e, file=sys.stderr); sys.exit(2)
    open(sys.argv[3], 'w').write(txt)
    json.dump(info, open(sys.argv[3] + '.info.json', 'w'), indent=1)
    print("translated %d functions; %d prototypes only" % (len(info['functions']), len(info['stubs_used'])), file=sys.stderr)
    if info['missing_std']:
        print("library callees needing a decision (stub or verbatim):", file=sys.stderr)
        for f in sorted(set(info['missing_std'])): print("  " + f, file=sys.stderr)
